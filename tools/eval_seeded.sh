#!/bin/bash
# usage: tools/eval_seeded.sh <seed-id> <property> [--harness X]
# Runs ./check <property> against a scratch copy of /repo with seeded/<seed-id>/patch.diff applied
# (VERIF_REPO points the driver at the copy; /repo itself is not touched). Prints the verdict.
S=$1; P=$2; shift 2
W=/tmp/seedwt-$S
rm -rf $W; mkdir -p $W
rsync -a --exclude target --exclude .git /repo/ $W/
( cd $W && patch -p1 -s < /verif/seeded/$S/patch.diff ) || { echo "patch failed"; exit 3; }
VERIF_REPO=$W /verif/check $P "$@" > /verif/.work/seed-$S-$P.log 2>&1
rc=$?
rm -rf $W
echo "seed=$S property=$P exit=$rc"
grep -E "VIOLATION|KNOWN-FINDING|INCONCLUSIVE|: fail" /verif/.work/seed-$S-$P.log | cut -c1-200 | head -8
exit $rc
