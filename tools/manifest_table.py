# Per-property claim texts. A property is either in CLAIMS or in NOT_APPLICABLE.
_T = "bounded model checking of the real Rust code (Kani 0.68 -> CBMC 6.11 / CaDiCaL): the repository's functions are compiled to a goto program and decided for all inputs inside the harness bounds against a reference model; environment (clock, file system, error channel, schedule point) as symbolic stubs; counterexamples replayed natively"
_N = "Trusted: Kani's MIR->goto translation, CBMC, CaDiCaL, the environment stubs listed in the evidence (coverage.stubs) and DESIGN.md 3.3. Holds only inside the bounds listed per harness in the evidence; async write mode, background threads and third-party crates (regex, flate2, toml, crossbeam) are outside every claim."
CLAIMS = {
    "C02": {
        "text": "Solver-decided equivalence of LogSpecification::enabled / level_sort / max_level and of FlexiLogger::log / ::enabled with the reference 'longest specified module name that is a prefix of the target, else default, else off', for all levels, symbolic module names (<= 3 bytes over {a,b,:}), symbolic targets (<= 4 bytes) and symbolic filters; log() delivery to the primary writer or the user line filter iff the reference enables; enabled() never false for a delivered record incl. brace targets at a writer's ceiling. The regex text filter is outside (crate built without `textfilter`).",
        "note": _N + " HashMap imports are redirected to an association-list model in the build copy (hashbrown is out of CBMC's reach).",
    },
    "C05": {
        "text": "For concrete sequences of 2-3 reconfiguration operations (set / parse / push / parse_and_push / pop, well-formed and malformed strings) with symbolic specifications, the real LoggerHandle is decided against a reference stack: filtering follows the active spec, pop restores the spec before the matching push, a rejected string changes neither the active spec nor the stack, gate >= spec. The parser is replaced by its contract here (decided under C17).",
        "note": _N + " LogSpecification::parse is stubbed by its contract in these harnesses; sequences longer than 3 operations are outside.",
    },
    "C07": {
        "text": "The cleanup kernel remove_or_compress_too_old_logfiles_impl is decided for KeepLogFiles(k), k <= 6 symbolic, 0..5 listed files, both naming kinds: exactly the files beyond the k newest are removed, in order, the newest is spared for direct namings, Never touches nothing, a failing removal ends the run with Err and no panic. Compression branches (flate2) and the background cleanup thread are outside.",
        "note": _N + " The directory listing is replaced by its contract (newest first); the listing/filter code is decided under C14.",
    },
    "C08": {
        "text": "CBMC decides, for all 64-bit values of limit and current size, that the real rotation decision equals (current size > limit) for Size and for AgeOrSize with the age part inactive; increase_size / reset_size_and_date are decided full-width. The step-level glue (rotate before write, account after write) is decided by the State step harnesses where they terminate.",
        "note": _N,
    },
    "C09": {
        "text": "For each Age in {Day, Hour, Minute, Second} the real kernel age_rotation_necessary is decided equal to 'local clock reading of created_at and of now differ in the period' for all civil instants of a seed-selected 4-year window (leap year, year boundaries) and six UTC offsets incl. -9:30 and +12:45, with chrono::Local::now stubbed by a symbolic instant.",
        "note": _N + " Monotone local clock assumed (DST jumps outside); file birth time lookup is outside.",
    },
    "C10": {
        "text": "Absence of panics (slice/str indexing, unwrap, overflow, unwinding assertions as the no-hang check) in FlexiLogger::log / ::enabled for a menu of adversarial targets (unbalanced / empty braces, multi-byte characters next to the braces, separators only, empty) with symbolic specification and level; further entry points are added per harness (see evidence).",
        "note": _N + " Symbolic target bytes did not terminate; the target menu is concrete, everything else symbolic. The lone '{' instance does not terminate on the fixed tree and is not registered.",
    },
    "C12": {
        "text": "Two concurrent set_new_spec calls are decided over all well-nested interleavings (second call before / inside the window between spec update and gate update / after) with symbolic specifications: the final state is one submitted specification as a whole and the gate admits everything it enables. The schedule point is the (stubbed) log::set_max_level; the second call only runs there if the spec lock is free.",
        "note": _N + " Kani has no threads: the schedule is a symbolic position; argument why well-nested interleavings suffice for last-writer-wins state is in the harness source. Specfile watcher outside.",
    },
    "C13": {
        "text": "FlexiLogger::log is decided for concrete brace lists over {A, B, _Default, unknown} with symbolic writer ceilings, specification, level and module path: one call per occurrence to each named registered writer, none to others, default channel iff _Default and the spec enables the module path, one report per unknown name, one timestamp for all receivers. MultiWriter::write duplication is decided for all 7x7 Duplicate settings x 5 levels before and after run-time adaptation; FileLogWriter::write for all ceilings x levels.",
        "note": _N + " SyslogWriter is outside (feature not encoded).",
    },
    "C20": {
        "text": "StateHandle::write (sync) is decided to hand the state exactly one buffer per record = format output (symbolic bytes) + exactly one configured line ending (LF / CRLF), and to leave the formatting buffer empty for the next record.",
        "note": _N + " JSON / coloured / timestamp-bearing formats, key-values and async mode are outside.",
    },
}
_PENDING = "check not built yet in this revision of /verif (planned, see DESIGN.md section 4)"
NOT_APPLICABLE = {
    "C03": "thread interleavings of N OS threads, crossbeam channel/queue and stdout locks cannot be encoded by Kani/CBMC (no concurrency support); a sequentialised harness would assume the atomicity it is meant to show",
}
for _i in range(1, 21):
    _k = f"C{_i:02d}"
    if _k not in CLAIMS and _k not in NOT_APPLICABLE:
        NOT_APPLICABLE[_k] = _PENDING
for _k in CLAIMS:
    CLAIMS[_k].setdefault("technique", _T)
