# Per-property claim texts. A property is either in CLAIMS or in NOT_APPLICABLE.
_T = "bounded model checking of the real Rust code (Kani 0.68 -> CBMC 6.11 / CaDiCaL): the repository's functions are compiled to a goto program and decided for all inputs inside the harness bounds against a reference model; environment (clock, file system, error channel, schedule point) as symbolic stubs; counterexamples replayed natively"
_N = "Trusted: Kani's MIR->goto translation, CBMC, CaDiCaL, the environment stubs listed in the evidence (coverage.stubs) and DESIGN.md 3.3. Holds only inside the bounds listed per harness in the evidence; async write mode, background threads and third-party crates (regex, flate2, toml, crossbeam) are outside every claim."
CLAIMS = {
    "C02": {
        "text": "Solver-decided equivalence of LogSpecification::enabled / level_sort / max_level and of FlexiLogger::log / ::enabled with the reference 'longest specified module name that is a prefix of the target, else default, else off', for all levels, symbolic module names (<= 3 bytes over {a,b,:}), symbolic targets (<= 4 bytes) and symbolic filters; log() delivery to the primary writer or the user line filter iff the reference enables; enabled() never false for a delivered record incl. brace targets at a writer's ceiling. Text-filter clause (feature textfilter): with the regex engine replaced by an uninterpreted predicate (symbolic answer for the rendered message, the opposite answer for any other text) log() passes the record on iff the spec enables it AND the filter matches the rendered message, with and without a user line filter.",
        "note": _N + " HashMap imports are redirected to an association-list model and regex::Regex to an opaque-identity model in the build copy (hashbrown and the regex engine are out of CBMC's reach; what the engine matches is not decided).",
    },
    "C04": {
        "text": "Synchronous modes at State level: the real std::io::BufWriter (the buffer of the buffered write modes) runs over a byte-recording sink instead of a File; for two records of symbolic length (below, at, above the capacity) it is decided that after State::flush() returned every accepted byte is in the sink exactly once and in order, and that before that the sink holds a prefix; in direct mode every record is in the sink as soon as write_buffer returned; State::shutdown flushes the mounted writer with and without rotation configured; MultiWriter forwards flush / shutdown to its writer exactly once; the sync handle forwards flush / shutdown to the state exactly once.",
        "note": _N + " LoggerHandle::flush/shutdown and PrimaryWriter::shutdown discard the Result of a virtual call with .ok() (io::Error drop glue: no result), handle clone/drop chains, stdout/stderr writers, async and flusher threads are outside. The sink replaces File: kernel-level durability is not modelled.",
    },
    "C05": {
        "text": "For concrete sequences of 2-3 reconfiguration operations (set / parse / push / parse_and_push / pop, well-formed and malformed strings) with symbolic specifications - levels and, with feature textfilter, the text filter of each spec (none / pattern 1 / pattern 2) - the real LoggerHandle is decided against a reference stack: filtering follows the active spec incl. its text filter, pop restores the spec before the matching push, a rejected string changes neither the active spec nor the stack, and the facade gate admits everything the active spec enables after every operation. The parser is replaced by its contract here.",
        "note": _N + " LogSpecification::parse is stubbed by its contract in these harnesses; sequences longer than 3 operations are outside.",
    },
    "C07": {
        "text": "The cleanup kernel remove_or_compress_too_old_logfiles_impl is decided for KeepLogFiles(k), k <= 6 symbolic, 0..5 listed files, both naming kinds: exactly the files beyond the k newest are removed, in order, the newest is spared for direct namings, Never touches nothing, a failing removal ends the run with Err and no panic. The Numbers infix filter (which decides what counts as a rotated file) is decided on 8 symbolic bytes: accepts every r+5 digits, rejects rCURRENT and everything not starting with r+digit. Compression branches (flate2) and the background cleanup thread are outside.",
        "note": _N + " The directory listing is replaced by its contract (newest first): the ordering produced by read_dir_related_files (behind the opaque std::fs::ReadDir) is not decided; the listing filter is decided under C14.",
    },
    "C08": {
        "text": "CBMC decides, for all 64-bit values of limit and current size, that the real rotation decision equals (current size > limit) for Size and for AgeOrSize with the age part inactive; increase_size / reset_size_and_date are decided full-width (reset re-reads the start time of the new file whatever the sizes); RollState::new counts the content found at start when appending. The step-level glue (rotate before write, account after write) is decided by the State step harnesses.",
        "note": _N,
    },
    "C09": {
        "text": "For each Age in {Day, Hour, Minute, Second} the real kernel age_rotation_necessary is decided equal to 'local clock reading of created_at and of now differ in the period' for all civil instants of a seed-selected 4-year window (leap year, year boundaries) and six UTC offsets incl. -9:30 and +12:45, with chrono::Local::now stubbed by a symbolic instant.",
        "note": _N + " Monotone local clock assumed (DST jumps outside); file birth time lookup is outside.",
    },
    "C10": {
        "text": "Absence of panics (slice/str indexing, unwrap, overflow, unwinding assertions as the no-hang check) in FlexiLogger::log / ::enabled for a menu of adversarial targets (unbalanced / empty braces, multi-byte characters next to the braces, separators only, empty) with symbolic specification and level; in the listing filter for multi-byte names; in the infix filters for symbolic byte strings incl. multi-byte characters at every position; in get_highest_index / ts_infix_from_path for short names.",
        "note": _N + " Symbolic target bytes did not terminate; the target menu is concrete, everything else symbolic. The lone '{' instance does not terminate on the fixed tree and is not registered.",
    },
    "C11": {
        "text": "Numbers naming, leaf level: every directory state a kill between two file-system effects of a rotation can leave (before the rename, between rename and re-open, after the re-open) is the symbolic start state of index_for_rcurrent for the restarted logger: it returns Ok, and the next rotation number is above every number on disk; a cleanup killed after j removals converges when run again; in direct mode open_log_file hands out an unbuffered File (bytes reach the descriptor when write returns), reopen_outputfile keeps it unbuffered, and a record is handed to the writer before write_buffer returns.",
        "note": _N + " Compositional: the order of the effects is decided by c01_rotate_numbers_size, the restart by the leaf harnesses; torn writes, timestamp namings, compression and kills at arbitrary instructions are outside; file contents are not modelled.",
    },
    "C12": {
        "text": "Two concurrent set_new_spec calls are decided over all well-nested interleavings with symbolic specifications: the second call arrives at any schedule point of the first - before each acquisition of the spec lock (read or write) and before the gate update - and runs as soon as the lock is free: the final state is one submitted specification as a whole and the gate admits everything it enables.",
        "note": _N + " Kani has no threads: the schedule is a symbolic position; argument why well-nested interleavings suffice for last-writer-wins state is in the harness source. Specfile watcher outside.",
    },
    "C13": {
        "text": "FlexiLogger::log is decided for concrete brace lists over {A, B, _Default, unknown} with symbolic writer ceilings, specification, level and module path: one call per occurrence to each named registered writer, none to others (also after an unknown name earlier in the list), default channel iff _Default and the spec enables the module path, one report per unknown name, one timestamp for all receivers. MultiWriter::write duplication is decided for all 7x7 Duplicate settings x 5 levels before and after run-time adaptation; FileLogWriter::write for all ceilings x levels.",
        "note": _N + " SyslogWriter is outside (feature not encoded).",
    },
    "C01": {
        "text": "One step of the rotation state machine from an arbitrary Active state (Numbers naming, Size criterion, symbolic index < 1000, sizes over all u64, force flag) is decided in two halves that compose along the crate's call structure: mount_next_linewriter_if_necessary rotates iff forced or size > N with effects rename -> open -> old writer released -> cleanup, index+1, size 0; write_buffer asks the rotation half once, hands the record exactly once to the mounted writer and then accounts its length. index_for_rcurrent is decided against rename outcomes. Model checking of the compiled code is the right level because the step is a small arithmetic/state machine whose interesting inputs are boundary values.",
        "note": _N + " Leaves (open_log_file, directory listing) are replaced by contract stubs; file contents are not modelled; timestamp namings, Age inside the step and buffered modes are outside (DESIGN.md 3.2, 4).",
    },
    "C06": {
        "text": "Leaf kernels of the restart logic are decided: index_for_rcurrent (next index = remembered one or highest existing + 1, rename to exactly that number, ENOENT is not an error), get_highest_index on listings by contract (plain, compressed, name parts containing '_r', short infixes, several files), initialize_with_rotation for the number namings, RollState::new seeding with the appended file's size for all u64, open_log_file (exactly directory/[basename]_[infix].[suffix] is opened, append == configured append, truncate only without append), collision_free_infix_for_rotated_file for a listing without restart siblings and symbolic existence of the plain / compressed target name (a rotated file never takes an existing name).",
        "note": _N + " Timestamp-naming restart (latest_timestamp_file), collision_free_infix_for_rotated_file with restart siblings present (any non-empty listing did not terminate), and multi-run histories are outside. std path functions run as natively self-tested byte-wise models in the collision-free-name harnesses.",
    },
    "C14": {
        "text": "FileSpec::filter_files is executed symbolically on menus of family members and near misses (other suffix, no suffix, longer basename sharing the prefix, missing infix, current-file infix, fragment inside a longer name, multi-byte separator position, missing separator) for three spec shapes and decided against the documented pattern; the Equals and Numbers infix filters are decided on symbolic byte strings; one open finding (extra dotted part after the infix) is reported as KNOWN-FINDING.",
        "note": _N + " File names are concrete menus (symbolic names did not terminate): only the listed shapes are covered. Consumers (cleanup, numbering) are decided on listings by contract.",
    },
    "C15": {
        "text": "Synchronous modes at State level: the byte sequence that reaches the sink for two records of symbolic length is decided equal to one reference stream both for the direct writer and for the real BufWriter after flush - equal to a common reference, hence independent of the write mode; raw byte chunks written through plain_write (two chunks, symbolic length <= 3, all 256 byte values incl. the async control bytes, empty chunks) reach the state exactly once, unchanged and in order, and the accepted length is reported; write_buffer hands raw bytes over unchanged and in one piece.",
        "note": _N + " Async mode (dispatch in a spawned thread) and the io::Write front end of ArcFileLogWriter are outside; rotation is stubbed quiet in these instances.",
    },
    "C16": {
        "text": "FileSpec::as_pathbuf / fixed_name_part are decided equal to the documented concatenation [basename][_discriminant][_infix][.suffix] for all 2^4 present/absent combinations (incl. empty infix, parts ending in '_'); a specification derived from a path (bare file name, nested path) denotes exactly that file and a file writer can be built from it (POSIX: the empty path is ENOENT); open_log_file opens exactly that path, and with a symlink configured the link points to the opened file afterwards whatever it pointed to before (another file, a deleted file, the same file), nothing reported; the listing filter is decided on menus for specs with basename, discriminant only and no name parts.",
        "note": _N + " Start-time part, existing_log_files selectors and the instance 'no link before' (io::Error drop in the code under test) are outside; the symlink is a one-entry table behind symlink_metadata / remove_file / symlink / canonicalize.",
    },
    "C18": {
        "text": "Reduced claim: State::reopen_outputfile is decided from an Active state with a recording writer: the path that is re-opened is the path of the current file, with create + append and never truncate (earlier content at that path is kept), the writer mounted before is released only after the new file is open (a BufWriter flushes what it holds into the old, externally renamed file when dropped), and bytes written afterwards reach the new file's descriptor at once (no user-space buffer is put in front of it); the sync handle forwards reopen to the state exactly once.",
        "note": _N + " reset_flw (StateHandle::reset: probe only), LoggerHandle::reopen_output's fan-out to additional writers, and the record streams across the switch (file contents are not modelled) are outside.",
    },
    "C19": {
        "text": "Concrete fault points with symbolic state: a failing rename / open / cleanup inside the rotation step returns Err before anything later happens, leaves the old writer mounted and index/size consistent (nothing written is lost, rotation is retried); index_for_rcurrent returns non-NotFound rename errors; a failing remove_file ends the cleanup with Err after the earlier removals; a failing first initialisation leaves the state Initial with its rotation configuration, so that the next write retries with rotation and ends Active with rotation.",
        "note": _N + " Faults are concrete per instance (a symbolic fault selector did not terminate); write failures (write_all's error path, the reporting in FlexiLogger::log: io::Error drop glue) and multi-step recovery are outside.",
    },
    "C20": {
        "text": "StateHandle::write (sync) is decided to hand the state exactly one buffer per record = format output (symbolic bytes) + exactly one configured line ending (LF / CRLF), in the normal and in the recursive-logging path, and to leave the formatting buffer empty for the next record; DeferredNow reads the clock once whatever the accessor order, so all outputs of a record carry the same timestamp.",
        "note": _N + " The text the provided format functions render (fmt machinery: raw function-pointer dispatch, DESIGN.md 2), JSON / coloured formats, key-values and async mode are outside.",
    },
}
_REACH = "needs the real BufWriter<File>/OpenOptions/File code over a model of file contents and State as a whole; every attempt ran out of the 12 GB / 15 min budget (virtual Write dispatch to every implementation, unfoldable enum discriminants, recursive error drop glue - DESIGN.md 2 and 5); the mechanisms that could be decided are counted under C01/C19/C20 only"
NOT_APPLICABLE = {
    "C03": "thread interleavings of N OS threads, crossbeam channel/queue and stdout locks cannot be encoded by Kani/CBMC (no concurrency support); a sequentialised harness would assume the atomicity it is meant to show",
    "C17": "LogSpecification::parse / parse_level_filter run std split/trim/to_lowercase over the input: with symbolic strings (re-probed: 3-5 bytes over a 6-letter alphabet, level parser by contract) CBMC gave no result in 400 s; Display needs the fmt machinery (raw function-pointer dispatch explores every Display impl of the crate); with concrete strings the solver decides nothing (enumeration of concrete runs is not this technique); TOML form needs serde/toml",
}
for _k in CLAIMS:
    CLAIMS[_k].setdefault("technique", _T)
