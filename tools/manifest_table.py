# Per-property claim texts. A property is either in CLAIMS or in NOT_APPLICABLE.
CLAIMS = {
    "C08": {
        "text": "CBMC decides, for all 64-bit values of limit and current size, that the real rotation decision equals (current size > limit); "
                "size accounting kernels are decided full-width. Bounded model checking over the compiled code is the right level: "
                "the property is an arithmetic comparison over machine integers where the interesting inputs are boundary values.",
        "note": "Kani/CBMC/CaDiCaL trusted; async mode outside; see evidence bounds per harness.",
    },
}
_PENDING = "check not built yet in this revision of /verif (planned, see DESIGN.md section 4)"
NOT_APPLICABLE = {
    "C03": "thread interleavings of N OS threads, crossbeam channel/queue and stdout locks cannot be encoded by Kani/CBMC (no concurrency support); a sequentialised harness would assume the atomicity it is meant to show",
}
for _i in range(1, 21):
    _k = f"C{_i:02d}"
    if _k not in CLAIMS and _k not in NOT_APPLICABLE:
        NOT_APPLICABLE[_k] = _PENDING
