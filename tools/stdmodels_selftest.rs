// Native differential self-test of the std models in kani/support/src/stdmodels.rs:
//   rustc -O --edition 2021 tools/stdmodels_selftest.rs -o .work/stdmodels_selftest && .work/stdmodels_selftest
// Exhaustive over all paths up to 7 bytes over the alphabet {a, b, '.', '/', '_'} that are inside the
// models' domain (no trailing separator, last component not "."), plus the harness menu names.
#[path = "../kani/support/src/stdmodels.rs"]
mod stdmodels;
use std::path::{Path, PathBuf};

fn in_domain(s: &str) -> bool {
    if s.is_empty() {
        return true;
    }
    if s.ends_with('/') {
        return false;
    }
    let last = s.rsplit('/').next().unwrap();
    last != "."
}
fn check(s: &str, n: &mut u64) {
    if !in_domain(s) {
        return;
    }
    let p = Path::new(s);
    assert_eq!(stdmodels::pathm::file_name(p), p.file_name(), "file_name {s:?}");
    assert_eq!(stdmodels::pathm::file_stem(p), p.file_stem(), "file_stem {s:?}");
    assert_eq!(stdmodels::pathm::extension(p), p.extension(), "extension {s:?}");
    // set_extension: std refuses (returns false) when there is no file name; the model's domain
    // additionally excludes such paths
    if p.file_name().is_some() {
        for ext in ["", "gz", "l.gz", ".gz", "x"] {
            let mut a = PathBuf::from(s);
            let mut b = PathBuf::from(s);
            let ra = a.set_extension(ext);
            let rb = stdmodels::set_extension_model(&mut b, ext);
            assert_eq!((ra, &a), (rb, &b), "set_extension {s:?} {ext:?}");
            *n += 1;
        }
    }
    *n += 3;
    // str::find / str::contains models: every corpus string as haystack against a menu of needles
    for needle in ["", ".", "_", "a", "ab", "_r", ".restart-", "b.", "..", "a/b", "aaaaaaaa"] {
        assert_eq!(stdmodels::strm::find(s.as_bytes(), needle.as_bytes()), s.find(needle), "find {s:?} {needle:?}");
        *n += 1;
    }
    assert_eq!(stdmodels::strm::is_ascii(s.as_bytes()), s.is_ascii(), "is_ascii {s:?}");
}
fn main() {
    let alpha = [b'a', b'b', b'.', b'/', b'_'];
    let mut n = 0u64;
    let mut buf: Vec<u8> = Vec::new();
    fn rec(buf: &mut Vec<u8>, alpha: &[u8], depth: usize, n: &mut u64) {
        check(std::str::from_utf8(buf).unwrap(), n);
        if depth == 0 {
            return;
        }
        for &c in alpha {
            buf.push(c);
            rec(buf, alpha, depth - 1, n);
            buf.pop();
        }
    }
    rec(&mut buf, &alpha, 7, &mut n);
    for s in [
        "d/b_rT.l", "d/b_rT.l.gz", "d/b_rT", "d/b_rT.gz", "d/b_rT.restart-0000.l", "d/b_rT.restart-0000.l.gz",
        "d/b_rT.restart-0001.l", "d/b_rT.restart-0005.x.gz", "d/b_rU.restart-0003.l", "d/bb_rT.restart-0007.l",
        "d/b_rT.restart-0002", "d/b_rT.restart-0001.gz", "d/b_r00001.l", "d/b\u{e9}r01.l", "d/.hidden", "d/.hidden.l",
        "log_files/my.app_r2024-06-09", "d/b_r2026-09-26_17-29-25.restart-0000.log.gz",
    ] {
        check(s, &mut n);
    }
    println!("stdmodels selftest: {n} comparisons with std agree");
}
