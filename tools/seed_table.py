#!/usr/bin/env python3
"""Regenerates the seeded-change table of DESIGN.md (between the SEED-TABLE markers) from seeded/*/meta.json."""
import json, os, glob, re
V = os.path.dirname(os.path.dirname(os.path.abspath(__file__)))
rows = []
for d in sorted(glob.glob(os.path.join(V, "seeded", "C*-*"))):
    sid = os.path.basename(d)
    mp = os.path.join(d, "meta.json")
    if not os.path.exists(mp):
        continue
    m = json.load(open(mp))
    rows.append((sid, m))
def rnd(sid):
    n = int(sid.split("-")[1])
    return {1: "1-3", 2: "1-3", 3: "1-3", 4: "4", 5: "4", 6: "5"}[n]
def short(v):
    v = v.strip()
    if v.startswith("caught"):
        return "**caught**" + v[6:]
    return v
out = []
out.append("| seed | round | change (one line) | needs | evaluation | verdict |")
out.append("|---|---|---|---|---|---|")
caught = missed = other = 0
for sid, m in rows:
    v = m.get("verdict", "")
    if v.startswith("caught"):
        caught += 1
    elif v.startswith("missed"):
        missed += 1
    else:
        other += 1
    out.append("| %s | %s | %s | %s | %s | %s |" % (sid, rnd(sid), m.get("change", "").replace("|", "/")[:170], m.get("needs_in_order_to_manifest", "").replace("|", "/")[:150], m.get("evaluation", "").replace("|", "/")[:200], short(v).replace("|", "/")[:220]))
summary = "%d seeded changes in total: %d caught, %d missed, %d raised an alarm without a VIOLATION line (exit 2) or are pending." % (len(rows), caught, missed, other)
text = "<!-- SEED-TABLE-BEGIN -->\n" + summary + "\n\n" + "\n".join(out) + "\n<!-- SEED-TABLE-END -->"
p = os.path.join(V, "DESIGN.md")
s = open(p).read()
if "SEED_TABLE_PLACEHOLDER" in s:
    s = s.replace("SEED_TABLE_PLACEHOLDER", text)
else:
    s = re.sub(r"<!-- SEED-TABLE-BEGIN -->.*?<!-- SEED-TABLE-END -->", lambda _m: text, s, flags=re.S)
s = re.sub(r"catch (SEEDSUMMARY|\d+ of \d+) independently seeded", "catch %d of %d independently seeded" % (caught, len(rows)), s)
open(p, "w").write(s)
print(summary)
