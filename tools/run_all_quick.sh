#!/bin/bash
# runs every claimed quick check against /repo, 3 at a time; logs under .work/final/
mkdir -p /verif/.work/final
cd /verif
ids=$(python3 -c "import json;print(' '.join(c['property_id'] for c in json.load(open('MANIFEST.json'))['checks']))")
echo $ids | tr ' ' '\n' | xargs -P ${VERIF_PAR:-3} -I{} sh -c './check {} --tier quick > .work/final/{}.log 2>&1; echo "{} exit=$?"'
