#!/bin/bash
# usage: tools/confirm_seed.sh <seed-id>   e.g. C09-5
# Re-confirms a seeded change in a scratch worktree of /repo (outside /repo and /verif):
#   demo passes on the unchanged tree, fails with the patch; the pinned suite passes with the patch.
S=$1; D=/verif/seeded/$S; W=/tmp/cf/$S
mkdir -p /tmp/cf; git -C /repo worktree remove --force $W 2>/dev/null
git -C /repo worktree add -q --detach $W HEAD || exit 3
cd $W || exit 3
export CARGO_TARGET_DIR=/tmp/cf/target-$S CARGO_NET_OFFLINE=true
for f in $D/seeded*demo*.rs; do cp $f tests/; done
demos=$(cd tests; ls seeded*demo*.rs | sed 's/\.rs$//')
echo "== $S demos: $demos"
echo "-- unchanged tree: demo"
for t in $demos; do cargo test --offline --test $t 2>&1 | grep -E "^test result" | head -3; done
P=$D/patch.diff; [ -f $D/patch_rebased.diff ] && P=$D/patch_rebased.diff
git apply $P || { echo "PATCH DOES NOT APPLY"; cd /; git -C /repo worktree remove --force $W; rm -rf $CARGO_TARGET_DIR; exit 3; }
echo "-- with change: demo"
for t in $demos; do cargo test --offline --test $t 2>&1 | grep -E "^test result" | head -3; done
echo "-- with change: pinned suite (demo excluded)"
for t in $demos; do rm tests/$t.rs; done
cargo test --offline --no-fail-fast 2>&1 | grep -E "^test result" | awk '{ok+=$4; fail+=$6} END{print "passed="ok" failed="fail}'
cd /; git -C /repo worktree remove --force $W; rm -rf $CARGO_TARGET_DIR
