#!/bin/bash
# usage: tools/symex_trace.sh <harness-name> [seconds] [unwind]
# Runs CBMC directly (verbosity 9) on the newest goto binary Kani produced for the harness and
# prints the functions symbolic execution visits, in order of first appearance. Diagnostic only.
H=$1; SECS=${2:-60}; UNW=${3:-12}
B=/verif/.work/target/kani/x86_64-unknown-linux-gnu/debug/build/flexi_logger
F=$(ls -t $B/*/out/*${H}.out 2>/dev/null | grep -v symtab | head -1)
[ -z "$F" ] && { echo "no goto binary for $H"; exit 1; }
M=$(basename "$F" .out | sed 's/^flexi_logger-[0-9a-f]*_//')
echo "binary: $F"; echo "entry: $M"
timeout $SECS cbmc "$F" --function "$M" --unwind $UNW --object-bits 16 --verbosity 9 > /verif/.work/symex.log 2>&1
echo "exit=$? lines=$(wc -l < /verif/.work/symex.log)"
grep -o "line [0-9]* column [0-9]* function .* thread" /verif/.work/symex.log | sed 's/line [0-9]* column [0-9]* function //; s/ thread$//' | awk '{c[$0]++; if(!s[$0]++) o[++n]=$0} END{for(i=1;i<=n;i++) printf "%6d %s\n", c[o[i]], o[i]}' | cut -c1-230
tail -3 /verif/.work/symex.log | cut -c1-300
