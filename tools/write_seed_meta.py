#!/usr/bin/env python3
"""Writes seeded/<id>/meta.json for the round-4 / round-5 seeded changes from the table below
(rounds 1-3 carry hand-written meta.json files). Re-run after an evaluation changed a verdict."""
import json, os, glob
V = os.path.dirname(os.path.dirname(os.path.abspath(__file__)))
CONF4 = "tools/confirm_seed.sh <id> in a scratch git worktree of /repo under /tmp/cf (2026-09-28): demonstration passes on the unchanged tree, fails with the patch; the repository's own suite (126 result lines incl. child runs) passes with the patch"
T = {
 # id: (property, change, needs, evaluation, verdict)
 "C01-4": ("C01", "collision_free_infix_for_rotated_file: collision test weakened (rotated file renamed onto an existing one)", "timestamp naming + a second rotation/restart onto the same timestamp infix", "tools/eval_seeded.sh C01-4 C06 -> VIOLATION (c06_cfi_no_siblings)", "caught"),
 "C02-5": ("C02", "FlexiLogger::log: text-filter test moved into the else branch of the line-filter hand-over", "text filter AND a user line filter configured together", "eval C02 -> VIOLATION (c02_log_textfilter_linefilter)", "caught"),
 "C04-5": ("C04", "PrimaryWriter::shutdown: flush moved into the match arms, the Multi arm lost it", "MultiWriter as primary writer + buffered file writer + shutdown without prior flush", "eval C04 -> VIOLATION (c04_primary_shutdown_flushes)", "caught"),
 "C05-5": ("C05", "pop_temp_spec writes the popped spec straight into the lock (no reconfigure): gate stays at the pushed spec's level", "push a stricter spec, pop back to a more verbose one", "eval C05 -> VIOLATION (c05_push_pop)", "caught"),
 "C06-4": ("C06", "collision_free_infix_for_rotated_file: the compressed twin (.gz) is no longer probed", "timestamp naming + cleanup with compression + restart within the same timestamp", "eval C06 -> VIOLATION (c06_cfi_no_siblings)", "caught"),
 "C07-5": ("C07", "read_dir_related_files: listing sorted by (length, name) instead of name", "timestamp naming with .restart-NNNN siblings (names of different length) + small cleanup limit", "eval C07 (whole quick tier) -> exit 0", "missed: the listing order lies behind std::fs::ReadDir (opaque) and is by contract only"),
 "C08-5": ("C08", "StateHandle::reset initialises the new state while the old (buffered) state is still alive: appended size under-counted", "reset_flw onto the same file with append in a buffered write mode", "eval C08 (whole quick tier) -> exit 0", "missed: reset_flw over a live BufWriter is outside the C08/C18 claims (c18_reset_replaces_state is a probe)"),
 "C09-5": ("C09", "reset_size_and_date: AgeOrSize arm keeps created_at when the size triggered the rotation", "AgeOrSize + a size-triggered rotation followed by a period change", "eval C08 -> VIOLATION (c08_size_accounting)", "caught"),
 "C10-4": ("C10", "restart number parsed from the rest of the stem instead of 4 digits: panics on a compressed restart sibling", "timestamp naming + compressed .restart-NNNN sibling of the same infix", "eval C10 (whole quick tier) -> exit 0 resp. probes time out", "missed: collision_free_infix_for_rotated_file with a non-empty sibling listing does not terminate in CBMC (probes)"),
 "C11-5": ("C11", "reopen_outputfile mounts a BufWriter instead of the plain File in direct mode", "direct mode + reopen_output + kill before the next flush", "PENDING", "PENDING"),
 "C12-5": ("C12", "set_new_spec skips reconfigure when the max level seems unchanged (check under a read lock before the write lock)", "second set_new_spec between the check and the write lock", "eval C12 -> VIOLATION (c12_two_setters_arrive1)", "caught"),
 "C13-5": ("C13", "brace-target loop: break instead of continue on an unknown writer name", "brace list with an unknown name before a registered one", "eval C13 -> VIOLATION (c13_brace_unknown_a)", "caught"),
 "C14-4": ("C14", "restart-sibling filter accepts any .gz (inner suffix no longer compared)", "foreign file <family>_<ts>.restart-NNNN.<other>.gz with the infix of a rotation", "eval C14 (whole quick tier) -> exit 0 (only the known finding is reported)", "missed: needs collision_free_infix_for_rotated_file with a non-empty sibling listing (probe c14_cfi_foreign_ignored does not terminate)"),
 "C15-5": ("C15", "State::shutdown flattened: flush only when rotation is configured", "file writer without rotation in a buffered mode, shutdown without flush", "eval C04 -> VIOLATION (c04_shutdown_flushes_without_rotation)", "caught"),
 "C16-4": ("C16", "unix_create_symlink keeps an existing link that 'already leads to the log file' (compares the wrong paths)", "symlink configured + link left over by an earlier run pointing to another / a deleted file", "PENDING", "PENDING"),
 "C17-4": ("C17", "Display for LogSpecification omits module filters equal to the default level", "spec with a module at the default level shadowing a shorter, different prefix", "not evaluated: C17 is not applicable (DESIGN.md 5)", "missed (property not claimed)"),
 "C18-4": ("C18", "reopen_outputfile opens with truncate instead of append", "reopen_output while the file is still in place", "eval C18 -> VIOLATION (c18_reopen_only)", "caught"),
 "C19-4": ("C19", "State::initialize takes the rotation configuration out of Inner::Initial before the fallible open", "first write fails (directory not creatable), later writes succeed", "eval C19 -> VIOLATION (c19_initialize_failure_keeps_rotation)", "caught"),
 "C20-5": ("C20", "with_thread / colored_with_thread: file and line through Option::zip", "record with exactly one of file / line present", "eval C20 (whole quick tier) -> exit 0", "missed: the provided format functions need the fmt machinery (DESIGN.md 2), outside the C20 claim"),
 # round 5 (this session)
 "C01-6": ("C01", "State gets an `unflushed` flag: flush() is skipped when clear; set at the start of write_buffer, cleared by the rotation half", "buffered mode + a write that itself rotates + flush directly afterwards", "eval C04 -> VIOLATION (c01_step_write_rotate_flush); before this session: build failure of the harness crate (State struct literal) = exit 2", "caught after strengthening (integrated write+rotate+flush step)"),
 "C04-6": ("C04", "same idea (`has_unflushed_data`), also used by shutdown()", "buffered mode + the rotating record is the last one before flush/shutdown/drop", "eval C04 -> VIOLATION (c01_step_write_rotate_flush, c04_step_write_rotate_shutdown)", "caught after strengthening"),
 "C06-6": ("C06", "restart number = count of restart siblings instead of highest + 1", "timestamp naming + more collisions on one infix than the cleanup limit keeps", "PENDING", "PENDING"),
 "C07-6": ("C07", "collision condition loses `|| !restart_siblings.is_empty()`", "timestamp naming + cleanup removed the un-suffixed file while restart siblings remain", "PENDING", "PENDING"),
 "C09-6": ("C09", "age_rotation_necessary compares timestamp()/3600 etc. (UTC periods) instead of local clock fields", "Age::Hour + a local offset that is not a whole number of hours", "eval C09 -> VIOLATION (c09_kernel_hour)", "caught"),
 "C11-6": ("C11", "cleanup skips compression when <file>.gz exists and removes the original (cfg(feature = compress))", "kill between creating the .gz and finishing it, then restart", "not evaluated: the change is inside #[cfg(feature = \"compress\")]; the harness build uses --no-default-features", "missed: compression (flate2) is outside every claim"),
 "C13-6": ("C13", "brace-target loop flattened: break on an unknown writer name", "brace list with an unknown name before a registered one / _Default", "eval C13 -> VIOLATION (c13_brace_unknown_a)", "caught"),
 "C16-6": ("C16", "as_pathbuf drops a present-but-empty suffix together with its dot", "FileSpec::try_from(\"dir/audit.\") or .suffix(\"\")", "eval C16 -> VIOLATION (c16_as_pathbuf_empty_suffix); before: exit 0", "caught after strengthening (new instance)"),
 "C18-6": ("C18", "reopen_outputfile honours config.append: truncates when append == false", "non-append config + reopen while the file is in place", "eval C18 -> VIOLATION (c18_reopen_only)", "caught"),
 "C19-6": ("C19", "index_for_rcurrent / creation_timestamp_of_currentfile only report a failing rename and carry on: the current file is re-opened with truncate", "rename fails at a rotation, append == false", "PENDING", "PENDING"),
 "C02-6": ("C02", "WritersHandle::reconfigure: max over the writers' levels, the spec's level only when there is no writer", "additional writer whose max_log_level is below the spec's max", "PENDING", "PENDING"),
 "C08-6": ("C08", "RollState::new reads the existing size only for Criterion::Size (AgeOrSize starts at 0)", "AgeOrSize + append + non-empty file at start", "eval C08 -> VIOLATION (c08_rollstate_new_seeding)", "caught"),
}
OVR = os.path.join(V, "seeded", "verdicts_override.json")
ovr = json.load(open(OVR)) if os.path.exists(OVR) else {}
for sid, (prop, change, needs, ev, verdict) in T.items():
    d = os.path.join(V, "seeded", sid)
    if not os.path.isdir(d):
        continue
    if sid in ovr:
        ev, verdict = ovr[sid]
    demos = sorted(os.path.basename(p) for p in glob.glob(os.path.join(d, "seeded*demo*.rs")))
    meta = {
        "breaks_property": prop,
        "change": change,
        "needs_in_order_to_manifest": needs,
        "produced_by": "independent sub-agent given only the property text and its own scratch worktree (no access to /verif); its notes are agent_notes.md",
        "confirmed": CONF4.replace("<id>", sid) if sid != "C11-6" else "agent log only (demo needs --features compress): builds, suite passes with the change, demo passes without / fails with it",
        "demonstration": demos,
        "evaluation": ev,
        "verdict": verdict,
    }
    json.dump(meta, open(os.path.join(d, "meta.json"), "w"), indent=1)
print("written", len(T))
