use super::*;
use log::{Level, LevelFilter};

fn any_level() -> Level {
    let x: u8 = kani::any();
    kani::assume(x < 5);
    match x { 0 => Level::Error, 1 => Level::Warn, 2 => Level::Info, 3 => Level::Debug, _ => Level::Trace }
}
fn any_filter() -> LevelFilter {
    let x: u8 = kani::any();
    kani::assume(x < 6);
    match x { 0 => LevelFilter::Off, 1 => LevelFilter::Error, 2 => LevelFilter::Warn, 3 => LevelFilter::Info, 4 => LevelFilter::Debug, _ => LevelFilter::Trace }
}
fn any_bytes<const N: usize>() -> [u8; N] {
    let b: [u8; N] = kani::any();
    let mut i = 0;
    while i < N {
        kani::assume(b[i] == b'a' || b[i] == b'b' || b[i] == b':');
        i += 1;
    }
    b
}
fn any_len(max: usize) -> usize { let l: usize = kani::any(); kani::assume(l <= max); l }
fn is_prefix(name: &[u8], target: &[u8]) -> bool {
    if name.len() > target.len() { return false; }
    let mut i = 0;
    while i < name.len() {
        if name[i] != target[i] { return false; }
        i += 1;
    }
    true
}

// Variant A: pre-sorted, symbolic lengths
#[kani::proof]
#[kani::unwind(6)]
fn probe_enabled_a() {
    let b1 = any_bytes::<3>();
    let b2 = any_bytes::<3>();
    let bt = any_bytes::<4>();
    let len1 = any_len(3); let len2 = any_len(3); let lent = any_len(4);
    kani::assume(len1 >= len2 && len2 >= 1);
    let n1 = std::str::from_utf8(&b1[..len1]).unwrap();
    let n2 = std::str::from_utf8(&b2[..len2]).unwrap();
    let target = std::str::from_utf8(&bt[..lent]).unwrap();
    kani::assume(len1 != len2 || !is_prefix(n1.as_bytes(), n2.as_bytes()));
    let l1 = any_filter();
    let l2 = any_filter();
    let has_default: bool = kani::any();
    let ld = any_filter();
    let mut v = Vec::with_capacity(3);
    v.push(ModuleFilter { module_name: Some(String::from(n1)), level_filter: l1 });
    v.push(ModuleFilter { module_name: Some(String::from(n2)), level_filter: l2 });
    if has_default {
        v.push(ModuleFilter { module_name: None, level_filter: ld });
    }
    let spec = LogSpecification { module_filters: v, #[cfg(feature = "textfilter")] textfilter: None };
    let level = any_level();
    let p1 = is_prefix(n1.as_bytes(), target.as_bytes());
    let p2 = is_prefix(n2.as_bytes(), target.as_bytes());
    let lf = if p1 { Some(l1) } else if p2 { Some(l2) } else if has_default { Some(ld) } else { None };
    let expected = match lf { Some(lf) => level <= lf, None => false };
    assert!(spec.enabled(level, target) == expected);
    std::mem::forget(spec);
}

// Variant B: with level_sort, fixed lengths
#[kani::proof]
#[kani::unwind(6)]
fn probe_enabled_b() {
    let b1 = any_bytes::<2>();
    let b2 = any_bytes::<3>();
    let bt = any_bytes::<4>();
    let n1 = std::str::from_utf8(&b1[..]).unwrap();
    let n2 = std::str::from_utf8(&b2[..]).unwrap();
    let target = std::str::from_utf8(&bt[..]).unwrap();
    let l1 = any_filter();
    let l2 = any_filter();
    let ld = any_filter();
    let mut v = Vec::with_capacity(3);
    v.push(ModuleFilter { module_name: Some(String::from(n1)), level_filter: l1 });
    v.push(ModuleFilter { module_name: None, level_filter: ld });
    v.push(ModuleFilter { module_name: Some(String::from(n2)), level_filter: l2 });
    let spec = LogSpecification { module_filters: v.level_sort(), #[cfg(feature = "textfilter")] textfilter: None };
    let level = any_level();
    let p1 = is_prefix(n1.as_bytes(), target.as_bytes());
    let p2 = is_prefix(n2.as_bytes(), target.as_bytes());
    let lf = if p2 { Some(l2) } else if p1 { Some(l1) } else { Some(ld) };
    let expected = match lf { Some(lf) => level <= lf, None => false };
    assert!(spec.enabled(level, target) == expected);
    std::mem::forget(spec);
}

// Variant C: level_sort only, names of symbolic length (content irrelevant)
#[kani::proof]
#[kani::unwind(6)]
fn probe_sort_c() {
    let mut v = Vec::with_capacity(3);
    let mut i = 0;
    while i < 3 {
        let some: bool = kani::any();
        let len = any_len(3);
        let lf = any_filter();
        v.push(ModuleFilter { module_name: if some { Some(String::from(&"abc"[..len])) } else { None }, level_filter: lf });
        i += 1;
    }
    let s = v.level_sort();
    assert!(s.len() == 3);
    let l = |m: &ModuleFilter| m.module_name.as_ref().map_or(0, String::len);
    assert!(l(&s[0]) >= l(&s[1]) && l(&s[1]) >= l(&s[2]));
    std::mem::forget(s);
}
