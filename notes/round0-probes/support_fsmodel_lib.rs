#![feature(c_variadic)]
//! Rust-level model of a tiny file system for Kani: path-taking std::fs functions are replaced by
//! `#[kani::stub]`s that land here; fd-level libc functions (write/close) are `#[no_mangle]` models.
#![allow(non_camel_case_types, unused, static_mut_refs)]
use std::os::raw::{c_char, c_int, c_long, c_uint, c_void};
use std::path::Path;
use std::io;

pub const MAXF: usize = 6;
pub const NAMELEN: usize = 32;
pub const CONTENT: usize = 16;

#[derive(Clone, Copy)]
pub struct MFile {
    pub used: bool,
    pub name: [u8; NAMELEN],
    pub nlen: usize,
    pub size: u64,
    pub data: [u8; CONTENT],
}
const EMPTY: MFile = MFile { used: false, name: [0; NAMELEN], nlen: 0, size: 0, data: [0; CONTENT] };
pub static mut FILES: [MFile; MAXF] = [EMPTY; MAXF];
#[derive(Clone, Copy)]
struct Fd { used: bool, file: usize }
static mut FDS: [Fd; 8] = [Fd { used: false, file: 0 }; 8];
static mut ERRNO: c_int = 0;
pub static mut N_RENAME: u32 = 0;
pub static mut N_OPEN: u32 = 0;
pub static mut N_WRITE: u32 = 0;
// pending open options
static mut O_APPEND: bool = false;
static mut O_TRUNC: bool = false;
static mut O_CREATE: bool = false;

fn pbytes(p: &Path) -> &[u8] { use std::os::unix::ffi::OsStrExt; p.as_os_str().as_bytes() }

unsafe fn find(p: &[u8]) -> Option<usize> {
    let mut i = 0;
    while i < MAXF {
        if FILES[i].used && FILES[i].nlen == p.len() {
            let mut eq = true;
            let mut k = 0;
            while k < p.len() && k < NAMELEN { if FILES[i].name[k] != p[k] { eq = false; } k += 1; }
            if eq { return Some(i); }
        }
        i += 1;
    }
    None
}
unsafe fn set_name(i: usize, p: &[u8]) {
    FILES[i].nlen = p.len();
    let mut k = 0;
    while k < p.len() && k < NAMELEN { FILES[i].name[k] = p[k]; k += 1; }
}
unsafe fn create(p: &[u8]) -> Option<usize> {
    let mut i = 0;
    while i < MAXF {
        if !FILES[i].used { FILES[i] = EMPTY; FILES[i].used = true; set_name(i, p); return Some(i); }
        i += 1;
    }
    None
}

// ---- stubs for std::fs (Rust level)
pub fn stub_rename<P: AsRef<Path>, Q: AsRef<Path>>(from: P, to: Q) -> io::Result<()> {
    unsafe {
        N_RENAME += 1;
        match find(pbytes(from.as_ref())) {
            None => Err(io::Error::from_raw_os_error(2)),
            Some(i) => {
                if let Some(j) = find(pbytes(to.as_ref())) { FILES[j].used = false; }
                set_name(i, pbytes(to.as_ref()));
                Ok(())
            }
        }
    }
}
pub fn stub_oo_append(o: &mut std::fs::OpenOptions, v: bool) -> &mut std::fs::OpenOptions { unsafe { O_APPEND = v; } o }
pub fn stub_oo_truncate(o: &mut std::fs::OpenOptions, v: bool) -> &mut std::fs::OpenOptions { unsafe { O_TRUNC = v; } o }
pub fn stub_oo_create(o: &mut std::fs::OpenOptions, v: bool) -> &mut std::fs::OpenOptions { unsafe { O_CREATE = v; } o }
pub fn stub_oo_write(o: &mut std::fs::OpenOptions, v: bool) -> &mut std::fs::OpenOptions { o }
pub fn stub_oo_open<P: AsRef<Path>>(o: &std::fs::OpenOptions, path: P) -> io::Result<std::fs::File> {
    use std::os::fd::FromRawFd;
    unsafe {
        N_OPEN += 1;
        let p = pbytes(path.as_ref());
        let f = match find(p) {
            Some(i) => i,
            None => {
                if !O_CREATE { return Err(io::Error::from_raw_os_error(2)); }
                match create(p) { Some(i) => i, None => return Err(io::Error::from_raw_os_error(28)) }
            }
        };
        if O_TRUNC { FILES[f].size = 0; }
        let mut i = 0;
        while i < 8 {
            if !FDS[i].used { FDS[i] = Fd { used: true, file: f }; return Ok(std::fs::File::from_raw_fd(10 + i as c_int)); }
            i += 1;
        }
        Err(io::Error::from_raw_os_error(24))
    }
}

// ---- libc level (fd based)
#[no_mangle]
pub unsafe extern "C" fn __errno_location() -> *mut c_int { &raw mut ERRNO }
#[no_mangle]
pub unsafe extern "C" fn write(fd: c_int, buf: *const c_void, count: usize) -> isize {
    if fd < 10 { return count as isize; }
    N_WRITE += 1;
    let i = (fd - 10) as usize;
    if i >= 8 || !FDS[i].used { ERRNO = 9; return -1; }
    let f = FDS[i].file;
    let mut k = 0;
    while k < 4 {
        if k < count {
            let pos = FILES[f].size as usize + k;
            if pos < CONTENT { FILES[f].data[pos] = *(buf as *const u8).add(k); }
        }
        k += 1;
    }
    FILES[f].size += count as u64;
    count as isize
}
#[no_mangle]
pub unsafe extern "C" fn close(fd: c_int) -> c_int {
    let i = (fd - 10) as usize;
    if fd >= 10 && i < 8 { FDS[i].used = false; }
    0
}
#[no_mangle]
pub unsafe extern "C" fn syscall(num: c_long, _args: ...) -> c_long { ERRNO = 38; -1 }

pub fn link_all() {
    let f4: unsafe extern "C" fn(c_int, *const c_void, usize) -> isize = write;
    let f5: unsafe extern "C" fn(c_int) -> c_int = close;
    let f6: unsafe extern "C" fn() -> *mut c_int = __errno_location;
    let f7: unsafe extern "C" fn(c_long, ...) -> c_long = syscall;
    std::hint::black_box((f4, f5, f6, f7));
}
pub fn file_size(name: &[u8]) -> Option<u64> { unsafe { find(name).map(|i| FILES[i].size) } }
pub fn counts() -> (u32, u32, u32) { unsafe { (N_OPEN, N_WRITE, N_RENAME) } }
pub fn n_files() -> usize { unsafe { let mut n = 0; let mut i = 0; while i < MAXF { if FILES[i].used { n += 1; } i += 1; } n } }

pub mod reexp { pub use std::panic::catch_unwind; }
pub fn stub_cu<F: FnOnce() -> R + std::panic::UnwindSafe, R>(f: F) -> std::thread::Result<R> { Ok(f()) }
static mut WRITES: [u64; 4] = [0; 4];
pub fn note_write(w: u8, n: usize) { unsafe { WRITES[(w % 4) as usize] += n as u64; } }
pub fn writes_to(w: u8) -> u64 { unsafe { WRITES[(w % 4) as usize] } }
pub fn add_file(name: &[u8], size: u64) { unsafe { if let Some(i) = create(name) { FILES[i].size = size; } } }
