use super::*;
use crate::{FileSpec, WriteMode};

fn my_now() -> chrono::DateTime<chrono::Local> {
    chrono::DateTime::from_naive_utc_and_offset(
        chrono::DateTime::from_timestamp(1_000_000, 0).unwrap().naive_utc(),
        chrono::FixedOffset::east_opt(0).unwrap(),
    )
}
fn no_ts(_i: &str, _f: &crate::writers::file_log_writer::state::InfixFormat) -> Result<chrono::DateTime<chrono::Local>, String> { unreachable!("timestamp arm reached in a Numbers instance") }
#[kani::proof]
#[kani::unwind(40)]
#[kani::stub(std::fs::rename, fsmodel::stub_rename)]
#[kani::stub(fsmodel::reexp::catch_unwind, fsmodel::stub_cu)]
#[kani::stub(chrono::Local::now, my_now)]
#[kani::stub(crate::writers::file_log_writer::state::timestamp_from_ts_infix, no_ts)]
fn probe_index_for_rcurrent() {
    fsmodel::link_all();
    let file_spec = FileSpec::default().directory("d").basename("b").suffix("l").suppress_timestamp();
    let config = FileLogWriterConfig {
        print_message: false,
        append: false,
        write_mode: WriteMode::Direct,
        file_spec,
        o_create_symlink: None,
        line_ending: b"\n",
        use_utc: false,
    };
    let idx: u32 = kani::any();
    kani::assume(idx < 3);
    let have_current: bool = kani::any();
    if have_current { fsmodel::add_file(b"d/b_rCURRENT.l", 5); }
    let r = index_for_rcurrent(&config, Some(idx), true);
    assert!(r.is_ok());
    let (_o, _w, renames) = fsmodel::counts();
    assert!(renames == 1);
    if have_current {
        assert!(r.unwrap() == idx + 1);
        assert!(fsmodel::file_size(b"d/b_rCURRENT.l").is_none());
        assert!(fsmodel::n_files() == 1);
    } else {
        assert!(r.unwrap() == idx);
        assert!(fsmodel::n_files() == 0);
    }
    kani::cover!(have_current && idx == 2, "rotated at 2");
    std::mem::forget(config);
}
