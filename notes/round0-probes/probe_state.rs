use super::*;
use crate::{FileSpec, WriteMode};

fn stub_ts(_p: &Path) -> DateTime<Local> {
    DateTime::from_naive_utc_and_offset(
        chrono::DateTime::from_timestamp(1_000_000, 0).unwrap().naive_utc(),
        chrono::FixedOffset::east_opt(0).unwrap(),
    )
}
fn my_now() -> DateTime<Local> { stub_ts(Path::new("")) }
fn stub_cleanup_thread(
    _cleanup: Cleanup,
    _file_spec: crate::FileSpec,
    _infix_filter: &InfixFilter,
    _writes_direct: bool,
) -> Result<list_and_cleanup::CleanupThreadHandle, std::io::Error> {
    Err(std::io::Error::from_raw_os_error(11))
}
fn stub_eprint(_c: ErrorCode, _m: &str, _e: &dyn std::error::Error) {}

struct W(u8);
impl Write for W {
    fn write(&mut self, b: &[u8]) -> std::io::Result<usize> { fsmodel::note_write(self.0, b.len()); Ok(b.len()) }
    fn flush(&mut self) -> std::io::Result<()> { Ok(()) }
}

#[kani::proof]
#[kani::unwind(40)]
#[kani::stub(get_creation_timestamp, stub_ts)]
#[kani::stub(fsmodel::reexp::catch_unwind, fsmodel::stub_cu)]
#[kani::stub(chrono::Local::now, my_now)]
#[kani::stub(list_and_cleanup::start_cleanup_thread, stub_cleanup_thread)]
#[kani::stub(crate::util::eprint_err, stub_eprint)]
#[kani::stub(std::fs::rename, fsmodel::stub_rename)]
#[kani::stub(std::fs::OpenOptions::append, fsmodel::stub_oo_append)]
#[kani::stub(std::fs::OpenOptions::truncate, fsmodel::stub_oo_truncate)]
#[kani::stub(std::fs::OpenOptions::create, fsmodel::stub_oo_create)]
#[kani::stub(std::fs::OpenOptions::write, fsmodel::stub_oo_write)]
#[kani::stub(std::fs::OpenOptions::open, fsmodel::stub_oo_open)]
fn probe_step_numbers_size() {
    fsmodel::link_all();
    let file_spec = FileSpec::default().directory("d").basename("b").suffix("l").suppress_timestamp();
    let config = FileLogWriterConfig {
        print_message: false,
        append: false,
        write_mode: WriteMode::Direct,
        file_spec,
        o_create_symlink: None,
        line_ending: b"\n",
        use_utc: false,
    };
    let idx: u32 = kani::any();
    kani::assume(idx < 3);
    let max_size: u64 = kani::any();
    let current_size: u64 = kani::any();
    kani::assume(current_size < u64::MAX - 8);
    fsmodel::add_file(b"d/b_rCURRENT.l", current_size);
    let path = config.file_spec.as_pathbuf(Some(CURRENT_INFIX));
    let mut state = State {
        config,
        inner: Inner::Active(
            Some(RotationState {
                naming_state: NamingState::NumbersRCurrent(idx),
                roll_state: RollState::Size { max_size, current_size },
                cleanup: Cleanup::Never,
                o_cleanup_thread_handle: None,
            }),
            Box::new(W(0)),
            path,
        ),
    };
    let len: usize = kani::any();
    kani::assume(len <= 3);
    let buf = [b'x'; 3];
    let r = state.write_buffer(&buf[..len]);
    assert!(r.is_ok());
    let (opens, _w, renames) = fsmodel::counts();
    if current_size > max_size {
        assert!(renames == 1 && opens == 1);
        assert!(fsmodel::file_size(b"d/b_rCURRENT.l") == Some(len as u64));
    } else {
        assert!(renames == 0 && opens == 0);
        assert!(fsmodel::writes_to(0) == len as u64);
    }
    if let Inner::Active(Some(rs), _, _) = &state.inner {
        if let (NamingState::NumbersRCurrent(i2), RollState::Size { current_size: c2, .. }) = (&rs.naming_state, &rs.roll_state) {
            if current_size > max_size { assert!(*i2 == idx + 1 && *c2 == len as u64); }
            else { assert!(*i2 == idx && *c2 == current_size + len as u64); }
        }
    }
    kani::cover!(current_size > max_size, "rotated");
    kani::cover!(current_size <= max_size, "not rotated");
    std::mem::forget(state);
}
