use super::*;
use chrono::{NaiveDate, FixedOffset};

fn any_dt(off: i32) -> DateTime<Local> {
    let y: i32 = kani::any(); let m: u32 = kani::any(); let d: u32 = kani::any();
    let h: u32 = kani::any(); let mi: u32 = kani::any(); let s: u32 = kani::any();
    kani::assume(y >= 2023 && y <= 2025 && m >= 1 && m <= 12 && d >= 1 && d <= 31 && h < 24 && mi < 60 && s < 60);
    let date = NaiveDate::from_ymd_opt(y, m, d);
    kani::assume(date.is_some());
    let ndt = date.unwrap().and_hms_opt(h, mi, s).unwrap();
    // interpret as local wall clock time with fixed offset `off`
    let fo = FixedOffset::east_opt(off).unwrap();
    DateTime::from_naive_utc_and_offset(ndt - fo, fo)
}
static NOW: std::sync::Mutex<Option<DateTime<Local>>> = std::sync::Mutex::new(None);
fn my_now() -> DateTime<Local> { NOW.lock().unwrap().unwrap() }

#[kani::proof]
#[kani::stub(chrono::Local::now, my_now)]
fn probe_age_day() {
    let off: i32 = kani::any();
    kani::assume(off == 0 || off == 3600 || off == -34200 || off == 45900);
    let created = any_dt(off);
    let now = any_dt(off);
    *NOW.lock().unwrap() = Some(now);
    let r = RollState::age_rotation_necessary(Age::Day, &created);
    let cl = created.naive_local(); let nl = now.naive_local();
    let expect = cl.date() != nl.date();
    assert!(r == expect);
}
