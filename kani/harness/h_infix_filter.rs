// Harnesses that are children of `writers::file_log_writer::infix_filter`.
use super::*;
use verif_support as vs;

fn is_digit(b: u8) -> bool {
    b >= b'0' && b <= b'9'
}

// @verif prop=C07,C14,C06 tier=quick timeout=300 bounds=infix<=8-symbolic-ASCII-bytes,length-symbolic
// The Numbers infix filter decides which files cleanup, numbering and listing treat as *rotated* files: it accepts every infix the Numbers namings produce (r + 5 digits) and rejects everything that does not start with r + digit - in particular the current-file infix rCURRENT (so the file being written is never a cleanup / compression candidate) and foreign fragments. Symbolic bytes, no panic for any length.
#[kani::proof]
#[kani::unwind(10)]
#[kani::stub(verif_support::reexp::catch_unwind, verif_support::stub_cu)]
#[kani::stub(crate::parameters::file_spec::TimestampCfg::get_timestamp, crate::parameters::file_spec::verif_harness::cut_get_timestamp)]
fn c07_numbers_filter_kernel() {
    let b: [u8; 8] = kani::any();
    let len: usize = kani::any();
    kani::assume(len <= 8);
    let mut i = 0;
    while i < 8 {
        kani::assume(b[i] < 0x80);
        i += 1;
    }
    let s = vs::str_from(&b[..len]);
    let r = InfixFilter::Numbrs.filter_infix(s);
    let numbered = len == 6 && b[0] == b'r' && is_digit(b[1]) && is_digit(b[2]) && is_digit(b[3]) && is_digit(b[4]) && is_digit(b[5]);
    if numbered {
        assert!(r);
    }
    if !(len >= 2 && b[0] == b'r' && is_digit(b[1])) {
        assert!(!r);
    }
    let current = len == 8 && b[0] == b'r' && b[1] == b'C' && b[2] == b'U' && b[3] == b'R' && b[4] == b'R' && b[5] == b'E' && b[6] == b'N' && b[7] == b'T';
    if current {
        assert!(!r);
    }
    kani::cover!(numbered, "an infix of the Numbers naming");
    kani::cover!(current, "the current-file infix");
    kani::cover!(len == 0, "empty infix");
}

// @verif prop=C07,C14 tier=quick timeout=300 bounds=infix-with-one-2-byte-character(U+00E9)-at-any-position,<=6-bytes
// The same filter on infixes containing a multi-byte character: no panic (char decoding, not byte slicing), rejected unless it starts with r + digit.
#[kani::proof]
#[kani::unwind(10)]
#[kani::stub(verif_support::reexp::catch_unwind, verif_support::stub_cu)]
#[kani::stub(crate::parameters::file_spec::TimestampCfg::get_timestamp, crate::parameters::file_spec::verif_harness::cut_get_timestamp)]
fn c10_numbers_filter_multibyte() {
    let b: [u8; 6] = kani::any();
    let len: usize = kani::any();
    kani::assume(len <= 6);
    kani::assume(vs::utf8_ok_c3a9(&b[..len]));
    let s = vs::str_from(&b[..len]);
    let r = InfixFilter::Numbrs.filter_infix(s);
    if !(len >= 2 && b[0] == b'r' && is_digit(b[1])) {
        assert!(!r);
    }
    kani::cover!(len >= 2 && b[0] == 0xC3, "multi-byte first character");
    kani::cover!(len >= 3 && b[0] == b'r' && b[1] == 0xC3, "multi-byte second character");
}

// @verif prop=C14,C06 tier=quick timeout=300 bounds=two-symbolic-ASCII-strings<=4-bytes
// The Equals filter (used to find the files that collide with a timestamp infix) accepts exactly the identical infix.
#[kani::proof]
#[kani::unwind(8)]
#[kani::stub(verif_support::reexp::catch_unwind, verif_support::stub_cu)]
#[kani::stub(crate::parameters::file_spec::TimestampCfg::get_timestamp, crate::parameters::file_spec::verif_harness::cut_get_timestamp)]
fn c14_equals_filter_kernel() {
    let a: [u8; 4] = kani::any();
    let b: [u8; 4] = kani::any();
    let la: usize = kani::any();
    let lb: usize = kani::any();
    kani::assume(la <= 4 && lb <= 4);
    let mut i = 0;
    while i < 4 {
        kani::assume(a[i] < 0x80 && b[i] < 0x80);
        i += 1;
    }
    let f = InfixFilter::Equls(String::from(vs::str_from(&a[..la])));
    let r = f.filter_infix(vs::str_from(&b[..lb]));
    let mut same = la == lb;
    let mut i = 0;
    while i < 4 {
        if i < la && i < lb && a[i] != b[i] {
            same = false;
        }
        i += 1;
    }
    assert!(r == same);
    kani::cover!(same && la == 4, "identical 4-byte infix");
    kani::cover!(!same && la == lb, "same length, different content");
    // InfixFilter::None never accepts
    assert!(!InfixFilter::None.filter_infix(vs::str_from(&b[..lb])));
    std::mem::forget(f);
}
