// Harnesses that are children of `log_specification` (they see LevelSort, ModuleFilter internals).
use super::*;
use log::Level;
use verif_support as vs;

pub(crate) fn any_level() -> Level {
    let x: u8 = kani::any();
    kani::assume(x < 5);
    match x {
        0 => Level::Error,
        1 => Level::Warn,
        2 => Level::Info,
        3 => Level::Debug,
        _ => Level::Trace,
    }
}
pub(crate) fn any_filter() -> LevelFilter {
    let x: u8 = kani::any();
    kani::assume(x < 6);
    match x {
        0 => LevelFilter::Off,
        1 => LevelFilter::Error,
        2 => LevelFilter::Warn,
        3 => LevelFilter::Info,
        4 => LevelFilter::Debug,
        _ => LevelFilter::Trace,
    }
}
// symbolic bytes over the alphabet {a, b, :}
fn any_bytes<const N: usize>() -> [u8; N] {
    let b: [u8; N] = kani::any();
    let mut i = 0;
    while i < N {
        kani::assume(b[i] == b'a' || b[i] == b'b' || b[i] == b':');
        i += 1;
    }
    b
}
fn any_len(max: usize) -> usize {
    let l: usize = kani::any();
    kani::assume(l <= max);
    l
}
fn is_prefix(name: &[u8], target: &[u8]) -> bool {
    if name.len() > target.len() {
        return false;
    }
    let mut i = 0;
    while i < name.len() {
        if name[i] != target[i] {
            return false;
        }
        i += 1;
    }
    true
}
// numeric rank of a filter / level, independent of the log crate's Ord impls
fn frank(f: LevelFilter) -> u8 {
    match f {
        LevelFilter::Off => 0,
        LevelFilter::Error => 1,
        LevelFilter::Warn => 2,
        LevelFilter::Info => 3,
        LevelFilter::Debug => 4,
        LevelFilter::Trace => 5,
    }
}
fn lrank(l: Level) -> u8 {
    match l {
        Level::Error => 1,
        Level::Warn => 2,
        Level::Info => 3,
        Level::Debug => 4,
        Level::Trace => 5,
    }
}
pub(crate) fn mk_spec(v: Vec<ModuleFilter>) -> LogSpecification {
    LogSpecification {
        module_filters: v,
        #[cfg(feature = "textfilter")]
        textfilter: None,
    }
}
// spec with the text filter `t` (0 = none, else the regex model's pattern id t)
pub(crate) fn mk_spec_tf(v: Vec<ModuleFilter>, t: u8) -> LogSpecification {
    LogSpecification {
        module_filters: v,
        #[cfg(feature = "textfilter")]
        textfilter: if t == 0 { None } else { Some(Box::new(Regex { id: t })) },
    }
}
// text filter of a spec as the model id (0 = none); always 0 without the feature
pub(crate) fn tf_of(s: &LogSpecification) -> u8 {
    #[cfg(feature = "textfilter")]
    {
        return s.text_filter().map_or(0, |r| r.id);
    }
    #[allow(unreachable_code)]
    0
}

// @verif prop=C02 tier=quick timeout=400 bounds=2-named-filters(len1..3,alphabet{a,b,:})+optional-default,target<=4-bytes,pre-sorted
// enabled() on a length-sorted filter vector == reference "longest specified module name that is a prefix of the target, else default, else off", for all levels incl. Off, names that are prefixes of each other, empty target.
#[kani::proof]
#[kani::unwind(6)]
#[kani::stub(verif_support::reexp::catch_unwind, verif_support::stub_cu)]
fn c02_enabled_sorted() {
    enabled_sorted_case::<3, 4>();
}
// @verif prop=C02 tier=thorough timeout=900 bounds=2-named-filters(len1..4,alphabet{a,b,:})+optional-default,target<=6-bytes,pre-sorted
// The same with names up to 4 bytes (room for a "::" inside a name) and targets up to 6 bytes.
#[kani::proof]
#[kani::unwind(8)]
#[kani::stub(verif_support::reexp::catch_unwind, verif_support::stub_cu)]
fn c02_enabled_sorted_deep() {
    enabled_sorted_case::<4, 6>();
}
fn enabled_sorted_case<const N: usize, const T: usize>() {
    vs::cell_set(0, 0);
    let b1 = any_bytes::<N>();
    let b2 = any_bytes::<N>();
    let bt = any_bytes::<T>();
    let len1 = any_len(N);
    let len2 = any_len(N);
    let lent = any_len(T);
    kani::assume(len1 >= len2 && len2 >= 1);
    let n1 = std::str::from_utf8(&b1[..len1]).unwrap();
    let n2 = std::str::from_utf8(&b2[..len2]).unwrap();
    let target = std::str::from_utf8(&bt[..lent]).unwrap();
    // each module named at most once (the property's precondition)
    kani::assume(len1 != len2 || !is_prefix(n1.as_bytes(), n2.as_bytes()));
    let l1 = any_filter();
    let l2 = any_filter();
    let has_default: bool = kani::any();
    let ld = any_filter();
    let mut v = Vec::with_capacity(3);
    v.push(ModuleFilter { module_name: Some(String::from(n1)), level_filter: l1 });
    v.push(ModuleFilter { module_name: Some(String::from(n2)), level_filter: l2 });
    if has_default {
        v.push(ModuleFilter { module_name: None, level_filter: ld });
    }
    let spec = mk_spec(v);
    let level = any_level();
    let p1 = is_prefix(n1.as_bytes(), target.as_bytes());
    let p2 = is_prefix(n2.as_bytes(), target.as_bytes());
    // n1 is at least as long as n2: it wins when both are prefixes
    let lf = if p1 { Some(l1) } else if p2 { Some(l2) } else if has_default { Some(ld) } else { None };
    let expected = match lf {
        Some(lf) => lrank(level) <= frank(lf),
        None => false,
    };
    assert!(spec.enabled(level, target) == expected);
    kani::cover!(p1 && p2 && len1 > len2, "both names are prefixes; longest wins");
    kani::cover!(!p1 && !p2 && !has_default, "no match, no default -> off");
    kani::cover!(p2 && !p1 && l2 == LevelFilter::Off, "module switched off");
    kani::cover!(lent == 0, "empty target");
    std::mem::forget(spec);
}

// @verif prop=C02 tier=quick timeout=300 bounds=3-filters-any-order(name-len<=3-or-default)
// level_sort yields a permutation ordered by descending name length (default last): the precondition of c02_enabled_sorted.
#[kani::proof]
#[kani::unwind(6)]
#[kani::stub(verif_support::reexp::catch_unwind, verif_support::stub_cu)]
fn c02_level_sort() {
    vs::cell_set(0, 0);
    let mut v = Vec::with_capacity(3);
    let mut lens = [0usize; 3];
    let mut ranks = [0u8; 3];
    let mut i = 0;
    while i < 3 {
        let some: bool = kani::any();
        let len = any_len(3);
        let lf = any_filter();
        lens[i] = if some { len } else { 0 };
        ranks[i] = frank(lf);
        v.push(ModuleFilter {
            module_name: if some { Some(String::from(&"abc"[..len])) } else { None },
            level_filter: lf,
        });
        i += 1;
    }
    let s = v.level_sort();
    assert!(s.len() == 3);
    let l = |m: &ModuleFilter| m.module_name.as_ref().map_or(0, String::len);
    assert!(l(&s[0]) >= l(&s[1]) && l(&s[1]) >= l(&s[2]));
    // permutation: multiset of (len, rank) pairs is preserved
    let key = |m: &ModuleFilter| (l(m) as u32) * 8 + frank(m.level_filter) as u32;
    let (a, b, c) = (key(&s[0]), key(&s[1]), key(&s[2]));
    let (x, y, z) = (lens[0] as u32 * 8 + ranks[0] as u32, lens[1] as u32 * 8 + ranks[1] as u32, lens[2] as u32 * 8 + ranks[2] as u32);
    assert!(a + b + c == x + y + z && a * a + b * b + c * c == x * x + y * y + z * z && a * a * a + b * b * b + c * c * c == x * x * x + y * y * y + z * z * z);
    kani::cover!(lens[0] < lens[1] && lens[1] < lens[2], "input in ascending order");
    std::mem::forget(s);
}

// @verif prop=C02 tier=quick timeout=400 bounds=names-len-2-and-3+default,given-unsorted,target-4-bytes
// Composition through the real level_sort (unsorted input: short name, default, long name): enabled() == longest-prefix reference.
#[kani::proof]
#[kani::unwind(6)]
#[kani::stub(verif_support::reexp::catch_unwind, verif_support::stub_cu)]
fn c02_enabled_unsorted() {
    vs::cell_set(0, 0);
    let b1 = any_bytes::<2>();
    let b2 = any_bytes::<3>();
    let bt = any_bytes::<4>();
    let n1 = std::str::from_utf8(&b1[..]).unwrap();
    let n2 = std::str::from_utf8(&b2[..]).unwrap();
    let target = std::str::from_utf8(&bt[..]).unwrap();
    let l1 = any_filter();
    let l2 = any_filter();
    let ld = any_filter();
    let mut v = Vec::with_capacity(3);
    v.push(ModuleFilter { module_name: Some(String::from(n1)), level_filter: l1 });
    v.push(ModuleFilter { module_name: None, level_filter: ld });
    v.push(ModuleFilter { module_name: Some(String::from(n2)), level_filter: l2 });
    let spec = mk_spec(v.level_sort());
    let level = any_level();
    let p1 = is_prefix(n1.as_bytes(), target.as_bytes());
    let p2 = is_prefix(n2.as_bytes(), target.as_bytes());
    let lf = if p2 { l2 } else if p1 { l1 } else { ld };
    assert!(spec.enabled(level, target) == (lrank(level) <= frank(lf)));
    kani::cover!(p1 && p2, "nested names");
    kani::cover!(p1 && !p2, "sibling with common prefix");
    std::mem::forget(spec);
}

// @verif prop=C02,C12 tier=quick timeout=300 bounds=<=3-filters,all-levels
// max_level() is the maximum of all filters (Off for the empty spec): the gate derived from it admits every level any filter enables.
#[kani::proof]
#[kani::unwind(6)]
#[kani::stub(verif_support::reexp::catch_unwind, verif_support::stub_cu)]
fn c02_max_level() {
    vs::cell_set(0, 0);
    let n = any_len(3);
    let mut v = Vec::with_capacity(3);
    let mut maxr = 0u8;
    let mut i = 0;
    while i < n {
        let lf = any_filter();
        if frank(lf) > maxr {
            maxr = frank(lf);
        }
        let named: bool = kani::any();
        v.push(ModuleFilter { module_name: if named { Some(String::from("a")) } else { None }, level_filter: lf });
        i += 1;
    }
    let spec = mk_spec(v);
    assert!(frank(spec.max_level()) == maxr);
    let level = any_level();
    if spec.enabled(level, "a") || spec.enabled(level, "") {
        assert!(lrank(level) <= frank(spec.max_level()));
    }
    kani::cover!(n == 0, "empty spec");
    kani::cover!(n == 3 && maxr == 5, "three filters");
    std::mem::forget(spec);
}

// ------------------------------------------------------------------------------------------------
// C17 (parser clause): LogSpecification::parse on symbolic short strings. The error *texts* are not
// the subject: `format!` is a non-empty marker (the parser decides Ok/Err by the emptiness of the
// collected error text, so the marker must not be empty).
fn stub_format_nonempty(_a: std::fmt::Arguments<'_>) -> String {
    String::from("E")
}
fn lower(b: u8) -> u8 {
    if b >= b'A' && b <= b'Z' { b + 32 } else { b }
}
fn ieq(s: &[u8], w: &[u8]) -> bool {
    if s.len() != w.len() {
        return false;
    }
    let mut i = 0;
    while i < w.len() {
        if lower(s[i]) != w[i] {
            return false;
        }
        i += 1;
    }
    true
}
// @verif prop=C17 tier=probe timeout=600 bounds=level-word<=5-symbolic-ASCII-bytes(letters-any-case,digits,space)
// parse_level_filter accepts exactly the six level words in any letter case and maps each to its level; everything else is an error. No panic.
#[kani::proof]
#[kani::unwind(8)]
#[kani::stub(verif_support::reexp::catch_unwind, verif_support::stub_cu)]
#[kani::stub(std::fmt::format, stub_format_nonempty)]
fn c17_parse_level_filter_kernel() {
    let b: [u8; 5] = kani::any();
    let len: usize = kani::any();
    kani::assume(len <= 5);
    let mut i = 0;
    while i < 5 {
        kani::assume(b[i] >= 0x20 && b[i] < 0x7f);
        i += 1;
    }
    let s = vs::str_from(&b[..len]);
    let r = parse_level_filter(s);
    let want = if ieq(&b[..len], b"off") {
        Some(LevelFilter::Off)
    } else if ieq(&b[..len], b"error") {
        Some(LevelFilter::Error)
    } else if ieq(&b[..len], b"warn") {
        Some(LevelFilter::Warn)
    } else if ieq(&b[..len], b"info") {
        Some(LevelFilter::Info)
    } else if ieq(&b[..len], b"debug") {
        Some(LevelFilter::Debug)
    } else if ieq(&b[..len], b"trace") {
        Some(LevelFilter::Trace)
    } else {
        None
    };
    match (&r, want) {
        (Ok(l), Some(w)) => assert!(frank(*l) == frank(w)),
        (Err(_), None) => {}
        _ => assert!(false, "parse_level_filter disagrees with the reference"),
    }
    kani::cover!(want.is_some() && b[0] == b'W', "level word in upper case");
    kani::cover!(want.is_none() && len == 4, "four bytes that are no level word");
    std::mem::forget(r);
}

// Contract of parse_level_filter for the parse harness below (the real one is decided by the kernel
// above): the single letter "w" (any case) is the level word Warn, everything else is unknown.
fn stub_plf<S: AsRef<str>>(s: S) -> Result<LevelFilter, FlexiLoggerError> {
    let b = s.as_ref().as_bytes();
    if b.len() == 1 && (b[0] == b'w' || b[0] == b'W') {
        Ok(LevelFilter::Warn)
    } else {
        Err(FlexiLoggerError::LevelFilter(String::from("E")))
    }
}
const P_ALPHA: [u8; 6] = [b'a', b'w', b'=', b',', b'/', b' '];
fn is_sp(b: u8) -> bool {
    b == b' '
}
// reference trim (ASCII space is the only whitespace of the alphabet)
fn rtrim(s: &[u8]) -> &[u8] {
    let mut a = 0;
    let mut z = s.len();
    while a < z && is_sp(s[a]) {
        a += 1;
    }
    while z > a && is_sp(s[z - 1]) {
        z -= 1;
    }
    &s[a..z]
}
fn has_sp(s: &[u8]) -> bool {
    let mut i = 0;
    while i < s.len() {
        if is_sp(s[i]) {
            return true;
        }
        i += 1;
    }
    false
}
// Reference parser for one comma-separated part (already trimmed, non-empty). Returns
// (is_error, Some((has_name, name_is_w.., level_rank))) - the filter it contributes, if any.
// kind: 0 = nothing (error), 1 = default level Warn, 2 = module `name` at Trace, 3 = module `name` at Warn
fn ref_part(p: &[u8]) -> (bool, u8, usize, usize) {
    // positions of '='
    let mut eqs = 0;
    let mut first = 0;
    let mut i = 0;
    while i < p.len() {
        if p[i] == b'=' {
            if eqs == 0 {
                first = i;
            }
            eqs += 1;
        }
        i += 1;
    }
    if eqs >= 2 {
        return (true, 0, 0, 0);
    }
    if eqs == 0 {
        // p is trimmed: whitespace inside is an error
        if has_sp(p) {
            return (true, 0, 0, 0);
        }
        if p.len() == 1 && p[0] == b'w' {
            return (false, 1, 0, 0);
        }
        return (false, 2, 0, p.len());
    }
    // name '=' level
    let n = rtrim(&p[..first]);
    let l = rtrim(&p[first + 1..]);
    // offsets of n inside p
    let mut a = 0;
    while a < first && is_sp(p[a]) {
        a += 1;
    }
    if has_sp(n) {
        return (true, 0, 0, 0);
    }
    if l.is_empty() {
        return (false, 2, a, a + n.len());
    }
    if l.len() == 1 && l[0] == b'w' {
        return (false, 3, a, a + n.len());
    }
    (true, 0, 0, 0)
}
fn parse_case<const N: usize>() {
    let idx: [u8; N] = kani::any();
    let mut b = [0u8; N];
    let mut i = 0;
    while i < N {
        kani::assume(idx[i] < 6);
        b[i] = P_ALPHA[idx[i] as usize];
        i += 1;
    }
    let len: usize = kani::any();
    kani::assume(len <= N);
    let s = vs::str_from(&b[..len]);
    let r = LogSpecification::parse(s);
    // ---- reference
    let inp = &b[..len];
    let mut slashes = 0;
    let mut slash_at = len;
    let mut i = 0;
    while i < len {
        if inp[i] == b'/' {
            if slashes == 0 {
                slash_at = i;
            }
            slashes += 1;
        }
        i += 1;
    }
    let mut want_err = false;
    let mut want_n = 0usize; // number of filters the carried / returned spec holds
    let mut want_default = false;
    let mut named_warn = 0usize;
    let mut named_trace = 0usize;
    let mut empty_name = false;
    if slashes >= 2 {
        want_err = true;
    } else {
        let mods = &inp[..slash_at];
        let mut start = 0;
        let mut i = 0;
        while i <= mods.len() {
            if i == mods.len() || mods[i] == b',' {
                let part = rtrim(&mods[start..i]);
                if !part.is_empty() {
                    let (e, kind, na, nz) = ref_part(part);
                    if e {
                        want_err = true;
                    } else {
                        want_n += 1;
                        if kind == 1 {
                            want_default = true;
                        } else {
                            if nz == na {
                                empty_name = true;
                            }
                            if kind == 2 {
                                named_trace += 1;
                            } else {
                                named_warn += 1;
                            }
                        }
                    }
                }
                start = i + 1;
            }
            i += 1;
        }
    }
    // a part like "=w" names the empty module: what that means is not specified - not decided
    kani::assume(!empty_name);
    // ---- compare: Ok/Err exactly when some part is malformed; the spec (returned or carried by
    // the error) holds exactly the well-formed parts
    let spec: &LogSpecification = match &r {
        Ok(sp) => {
            assert!(!want_err);
            sp
        }
        Err(FlexiLoggerError::Parse(_, sp)) => {
            assert!(want_err);
            sp
        }
        Err(_) => {
            assert!(false, "unexpected error kind");
            unreachable!()
        }
    };
    let mf = spec.module_filters();
    assert!(mf.len() == want_n);
    let mut got_default = false;
    let mut got_warn = 0usize;
    let mut got_trace = 0usize;
    let mut i = 0;
    while i < mf.len() {
        match (&mf[i].module_name, mf[i].level_filter) {
            (None, LevelFilter::Warn) => got_default = true,
            (Some(_), LevelFilter::Warn) => got_warn += 1,
            (Some(_), LevelFilter::Trace) => got_trace += 1,
            _ => assert!(false, "unexpected filter"),
        }
        i += 1;
    }
    assert!(got_default == want_default);
    assert!(got_warn == named_warn && got_trace == named_trace);
    kani::cover!(want_err && want_n > 0, "malformed part next to a well-formed one");
    kani::cover!(!want_err && want_n == 2, "two well-formed parts");
    kani::cover!(slashes >= 2, "too many slashes");
    std::mem::forget(r);
}
// @verif prop=C17 tier=probe timeout=900 bounds=all-strings<=3-bytes-over{a,w,=,comma,slash,space},level-word-by-contract("w")
// LogSpecification::parse never panics, returns Err exactly when some part is malformed (too many '/', more than one '=', whitespace inside a name, unknown level), and the specification returned or carried by the error holds exactly the well-formed parts.
#[kani::proof]
#[kani::unwind(8)]
#[kani::stub(verif_support::reexp::catch_unwind, verif_support::stub_cu)]
#[kani::stub(std::fmt::format, stub_format_nonempty)]
#[kani::stub(parse_level_filter, stub_plf)]
fn c17_parse_len3() {
    parse_case::<3>();
}
// @verif prop=C17 tier=probe timeout=1500 bounds=all-strings<=5-bytes-over{a,w,=,comma,slash,space}
// The same for strings up to 5 bytes.
#[kani::proof]
#[kani::unwind(10)]
#[kani::stub(verif_support::reexp::catch_unwind, verif_support::stub_cu)]
#[kani::stub(std::fmt::format, stub_format_nonempty)]
#[kani::stub(parse_level_filter, stub_plf)]
fn c17_parse_len5() {
    parse_case::<5>();
}

// ------------------------------------------------------------------------------------------------
// C02: a specification assembled with LogSpecBuilder (insert order arbitrary, one module
// overwritten, one removed) decides like the reference for the resulting set of filters.
// @verif prop=C02,C05 tier=probe timeout=600 bounds=builder{default,a(set-twice),ab},levels-symbolic,target<=2-bytes-over{a,b}
// LogSpecBuilder: default + modules "a" (set twice, last wins) and "ab" with symbolic levels; build() == reference longest-prefix decision for every level and every target up to 2 bytes over {a,b}.
#[kani::proof]
#[kani::unwind(8)]
#[kani::stub(verif_support::reexp::catch_unwind, verif_support::stub_cu)]
#[kani::stub(std::hash::RandomState::new, verif_support::stub_random_state)]
fn c02_builder_spec() {
    let (ld, la0, la, lab) = (any_filter(), any_filter(), any_filter(), any_filter());
    let mut bld = LogSpecBuilder::new();
    bld.module("ab", lab);
    bld.module("a", la0);
    bld.default(ld);
    bld.module("a", la);
    let spec = bld.build();
    let tb: [u8; 2] = kani::any();
    let tl: usize = kani::any();
    kani::assume(tl <= 2);
    kani::assume((tb[0] == b'a' || tb[0] == b'b') && (tb[1] == b'a' || tb[1] == b'b'));
    let target = vs::str_from(&tb[..tl]);
    let level = any_level();
    let lf = if tl >= 2 && tb[0] == b'a' && tb[1] == b'b' {
        lab
    } else if tl >= 1 && tb[0] == b'a' {
        la
    } else {
        ld
    };
    assert!(spec.enabled(level, target) == (lrank(level) <= frank(lf)));
    // the facade gate derived from the spec admits everything the spec enables
    assert!(frank(spec.max_level()) >= frank(la) && frank(spec.max_level()) >= frank(lab) && frank(spec.max_level()) >= frank(ld));
    kani::cover!(frank(la) != frank(la0), "module overwritten with another level");
    kani::cover!(tl == 1 && tb[0] == b'b', "unrelated target falls back to the default");
    std::mem::forget(spec);
    std::mem::forget(bld);
}
