// Harnesses that are children of `log_specification` (they see LevelSort, ModuleFilter internals).
use super::*;
use log::Level;
use verif_support as vs;

pub(crate) fn any_level() -> Level {
    let x: u8 = kani::any();
    kani::assume(x < 5);
    match x {
        0 => Level::Error,
        1 => Level::Warn,
        2 => Level::Info,
        3 => Level::Debug,
        _ => Level::Trace,
    }
}
pub(crate) fn any_filter() -> LevelFilter {
    let x: u8 = kani::any();
    kani::assume(x < 6);
    match x {
        0 => LevelFilter::Off,
        1 => LevelFilter::Error,
        2 => LevelFilter::Warn,
        3 => LevelFilter::Info,
        4 => LevelFilter::Debug,
        _ => LevelFilter::Trace,
    }
}
// symbolic bytes over the alphabet {a, b, :}
fn any_bytes<const N: usize>() -> [u8; N] {
    let b: [u8; N] = kani::any();
    let mut i = 0;
    while i < N {
        kani::assume(b[i] == b'a' || b[i] == b'b' || b[i] == b':');
        i += 1;
    }
    b
}
fn any_len(max: usize) -> usize {
    let l: usize = kani::any();
    kani::assume(l <= max);
    l
}
fn is_prefix(name: &[u8], target: &[u8]) -> bool {
    if name.len() > target.len() {
        return false;
    }
    let mut i = 0;
    while i < name.len() {
        if name[i] != target[i] {
            return false;
        }
        i += 1;
    }
    true
}
// numeric rank of a filter / level, independent of the log crate's Ord impls
fn frank(f: LevelFilter) -> u8 {
    match f {
        LevelFilter::Off => 0,
        LevelFilter::Error => 1,
        LevelFilter::Warn => 2,
        LevelFilter::Info => 3,
        LevelFilter::Debug => 4,
        LevelFilter::Trace => 5,
    }
}
fn lrank(l: Level) -> u8 {
    match l {
        Level::Error => 1,
        Level::Warn => 2,
        Level::Info => 3,
        Level::Debug => 4,
        Level::Trace => 5,
    }
}
pub(crate) fn mk_spec(v: Vec<ModuleFilter>) -> LogSpecification {
    LogSpecification {
        module_filters: v,
        #[cfg(feature = "textfilter")]
        textfilter: None,
    }
}
// spec with the text filter `t` (0 = none, else the regex model's pattern id t)
pub(crate) fn mk_spec_tf(v: Vec<ModuleFilter>, t: u8) -> LogSpecification {
    LogSpecification {
        module_filters: v,
        #[cfg(feature = "textfilter")]
        textfilter: if t == 0 { None } else { Some(Box::new(Regex { id: t })) },
    }
}
// text filter of a spec as the model id (0 = none); always 0 without the feature
pub(crate) fn tf_of(s: &LogSpecification) -> u8 {
    #[cfg(feature = "textfilter")]
    {
        return s.text_filter().map_or(0, |r| r.id);
    }
    #[allow(unreachable_code)]
    0
}

// @verif prop=C02 tier=quick timeout=400 bounds=2-named-filters(len1..3,alphabet{a,b,:})+optional-default,target<=4-bytes,pre-sorted
// enabled() on a length-sorted filter vector == reference "longest specified module name that is a prefix of the target, else default, else off", for all levels incl. Off, names that are prefixes of each other, empty target.
#[kani::proof]
#[kani::unwind(6)]
#[kani::stub(verif_support::reexp::catch_unwind, verif_support::stub_cu)]
fn c02_enabled_sorted() {
    vs::cell_set(0, 0);
    let b1 = any_bytes::<3>();
    let b2 = any_bytes::<3>();
    let bt = any_bytes::<4>();
    let len1 = any_len(3);
    let len2 = any_len(3);
    let lent = any_len(4);
    kani::assume(len1 >= len2 && len2 >= 1);
    let n1 = std::str::from_utf8(&b1[..len1]).unwrap();
    let n2 = std::str::from_utf8(&b2[..len2]).unwrap();
    let target = std::str::from_utf8(&bt[..lent]).unwrap();
    // each module named at most once (the property's precondition)
    kani::assume(len1 != len2 || !is_prefix(n1.as_bytes(), n2.as_bytes()));
    let l1 = any_filter();
    let l2 = any_filter();
    let has_default: bool = kani::any();
    let ld = any_filter();
    let mut v = Vec::with_capacity(3);
    v.push(ModuleFilter { module_name: Some(String::from(n1)), level_filter: l1 });
    v.push(ModuleFilter { module_name: Some(String::from(n2)), level_filter: l2 });
    if has_default {
        v.push(ModuleFilter { module_name: None, level_filter: ld });
    }
    let spec = mk_spec(v);
    let level = any_level();
    let p1 = is_prefix(n1.as_bytes(), target.as_bytes());
    let p2 = is_prefix(n2.as_bytes(), target.as_bytes());
    // n1 is at least as long as n2: it wins when both are prefixes
    let lf = if p1 { Some(l1) } else if p2 { Some(l2) } else if has_default { Some(ld) } else { None };
    let expected = match lf {
        Some(lf) => lrank(level) <= frank(lf),
        None => false,
    };
    assert!(spec.enabled(level, target) == expected);
    kani::cover!(p1 && p2 && len1 > len2, "both names are prefixes; longest wins");
    kani::cover!(!p1 && !p2 && !has_default, "no match, no default -> off");
    kani::cover!(p2 && !p1 && l2 == LevelFilter::Off, "module switched off");
    kani::cover!(lent == 0, "empty target");
    std::mem::forget(spec);
}

// @verif prop=C02 tier=quick timeout=300 bounds=3-filters-any-order(name-len<=3-or-default)
// level_sort yields a permutation ordered by descending name length (default last): the precondition of c02_enabled_sorted.
#[kani::proof]
#[kani::unwind(6)]
#[kani::stub(verif_support::reexp::catch_unwind, verif_support::stub_cu)]
fn c02_level_sort() {
    vs::cell_set(0, 0);
    let mut v = Vec::with_capacity(3);
    let mut lens = [0usize; 3];
    let mut ranks = [0u8; 3];
    let mut i = 0;
    while i < 3 {
        let some: bool = kani::any();
        let len = any_len(3);
        let lf = any_filter();
        lens[i] = if some { len } else { 0 };
        ranks[i] = frank(lf);
        v.push(ModuleFilter {
            module_name: if some { Some(String::from(&"abc"[..len])) } else { None },
            level_filter: lf,
        });
        i += 1;
    }
    let s = v.level_sort();
    assert!(s.len() == 3);
    let l = |m: &ModuleFilter| m.module_name.as_ref().map_or(0, String::len);
    assert!(l(&s[0]) >= l(&s[1]) && l(&s[1]) >= l(&s[2]));
    // permutation: multiset of (len, rank) pairs is preserved
    let key = |m: &ModuleFilter| (l(m) as u32) * 8 + frank(m.level_filter) as u32;
    let (a, b, c) = (key(&s[0]), key(&s[1]), key(&s[2]));
    let (x, y, z) = (lens[0] as u32 * 8 + ranks[0] as u32, lens[1] as u32 * 8 + ranks[1] as u32, lens[2] as u32 * 8 + ranks[2] as u32);
    assert!(a + b + c == x + y + z && a * a + b * b + c * c == x * x + y * y + z * z && a * a * a + b * b * b + c * c * c == x * x * x + y * y * y + z * z * z);
    kani::cover!(lens[0] < lens[1] && lens[1] < lens[2], "input in ascending order");
    std::mem::forget(s);
}

// @verif prop=C02 tier=quick timeout=400 bounds=names-len-2-and-3+default,given-unsorted,target-4-bytes
// Composition through the real level_sort (unsorted input: short name, default, long name): enabled() == longest-prefix reference.
#[kani::proof]
#[kani::unwind(6)]
#[kani::stub(verif_support::reexp::catch_unwind, verif_support::stub_cu)]
fn c02_enabled_unsorted() {
    vs::cell_set(0, 0);
    let b1 = any_bytes::<2>();
    let b2 = any_bytes::<3>();
    let bt = any_bytes::<4>();
    let n1 = std::str::from_utf8(&b1[..]).unwrap();
    let n2 = std::str::from_utf8(&b2[..]).unwrap();
    let target = std::str::from_utf8(&bt[..]).unwrap();
    let l1 = any_filter();
    let l2 = any_filter();
    let ld = any_filter();
    let mut v = Vec::with_capacity(3);
    v.push(ModuleFilter { module_name: Some(String::from(n1)), level_filter: l1 });
    v.push(ModuleFilter { module_name: None, level_filter: ld });
    v.push(ModuleFilter { module_name: Some(String::from(n2)), level_filter: l2 });
    let spec = mk_spec(v.level_sort());
    let level = any_level();
    let p1 = is_prefix(n1.as_bytes(), target.as_bytes());
    let p2 = is_prefix(n2.as_bytes(), target.as_bytes());
    let lf = if p2 { l2 } else if p1 { l1 } else { ld };
    assert!(spec.enabled(level, target) == (lrank(level) <= frank(lf)));
    kani::cover!(p1 && p2, "nested names");
    kani::cover!(p1 && !p2, "sibling with common prefix");
    std::mem::forget(spec);
}

// @verif prop=C02,C12 tier=quick timeout=300 bounds=<=3-filters,all-levels
// max_level() is the maximum of all filters (Off for the empty spec): the gate derived from it admits every level any filter enables.
#[kani::proof]
#[kani::unwind(6)]
#[kani::stub(verif_support::reexp::catch_unwind, verif_support::stub_cu)]
fn c02_max_level() {
    vs::cell_set(0, 0);
    let n = any_len(3);
    let mut v = Vec::with_capacity(3);
    let mut maxr = 0u8;
    let mut i = 0;
    while i < n {
        let lf = any_filter();
        if frank(lf) > maxr {
            maxr = frank(lf);
        }
        let named: bool = kani::any();
        v.push(ModuleFilter { module_name: if named { Some(String::from("a")) } else { None }, level_filter: lf });
        i += 1;
    }
    let spec = mk_spec(v);
    assert!(frank(spec.max_level()) == maxr);
    let level = any_level();
    if spec.enabled(level, "a") || spec.enabled(level, "") {
        assert!(lrank(level) <= frank(spec.max_level()));
    }
    kani::cover!(n == 0, "empty spec");
    kani::cover!(n == 3 && maxr == 5, "three filters");
    std::mem::forget(spec);
}
