// Harnesses that are children of `writers::file_log_writer::state::numbers`.
use super::*;
use crate::writers::file_log_writer::verif_harness::mk_config;
use crate::WriteMode;
use std::os::unix::ffi::OsStrExt;
use std::path::{Path, PathBuf};
use verif_support as vs;

// --- environment --------------------------------------------------------------------------------
// get_highest_index by contract: cell 0 = 0 (no rotated file) or idx + 1
fn stub_highest(_fs: &FileSpec) -> Option<u32> {
    let v = vs::cell_get(0);
    if v == 0 {
        None
    } else {
        Some((v - 1) as u32)
    }
}
// number_infix by an injective short rendering ("r" + idx as one char; harness keeps idx < 200):
// the decimal rendering itself is decided in c16_number_infix
fn stub_number_infix(idx: u32) -> String {
    vs::cell_set(3, idx as u64);
    let mut s = String::with_capacity(2);
    s.push('r');
    s.push((b'0' + (idx % 64) as u8) as char);
    s
}
// rename model: cell 1 = 1 if the rCURRENT file exists, cell 2 = errno to inject (0 = none).
// Records: cell 4 = number of calls, cell 5 = 1 if `from` is the CURRENT path, cell 6 = last byte
// of the infix in `to` (identifies the index rendering), cell 7 = 1 if `to` has the family shape.
fn stub_rename<P: AsRef<Path>, Q: AsRef<Path>>(from: P, to: Q) -> std::io::Result<()> {
    vs::cell_inc(4);
    let f = from.as_ref().as_os_str().as_bytes();
    let t = to.as_ref().as_os_str().as_bytes();
    vs::cell_set(5, if f == b"d/b_rCURRENT.l" { 1 } else { 0 });
    if t.len() == 8 && &t[..5] == b"d/b_r" && &t[6..] == b".l" {
        vs::cell_set(7, 1);
        vs::cell_set(6, t[5] as u64);
    }
    let inj = vs::cell_get(2);
    if inj != 0 {
        return Err(std::io::Error::from_raw_os_error(inj as i32));
    }
    if vs::cell_get(1) == 1 {
        vs::cell_set(1, 0);
        Ok(())
    } else {
        Err(std::io::Error::from_raw_os_error(2)) // ENOENT
    }
}
fn cfg() -> FileLogWriterConfig {
    mk_config(
        FileSpec::default().directory("d").basename("b").suffix("l").suppress_timestamp(),
        false,
        WriteMode::Direct,
    )
}

// @verif prop=C01,C06,C19 tier=probe timeout=600 bounds=known-index<200-or-unknown(highest-rotated-index<200-or-none),current-file-present/absent,rename-ok/ENOENT/EACCES
// index_for_rcurrent: the closed rCURRENT file is renamed to exactly r<index> where index is the remembered one, or (at start) one above the highest existing rotated number (0 if none) - never an existing number; the next index is index+1 iff the rename happened; a missing current file is not an error; any other rename failure is returned as Err and leaves the index unchanged.
#[kani::proof]
#[kani::unwind(16)]
#[kani::stub(verif_support::reexp::catch_unwind, verif_support::stub_cu)]
#[kani::stub(get_highest_index, stub_highest)]
#[kani::stub(number_infix, stub_number_infix)]
#[kani::stub(std::fs::rename, stub_rename)]
fn c06_index_for_rcurrent() {
    vs::link_all();
    let known: bool = kani::any();
    let idx: u32 = kani::any();
    kani::assume(idx < 200);
    let highest_plus1: u64 = kani::any();
    kani::assume(highest_plus1 <= 200);
    vs::cell_set(0, highest_plus1);
    let have_current: bool = kani::any();
    vs::cell_set(1, if have_current { 1 } else { 0 });
    let fault: u8 = kani::any();
    kani::assume(fault < 3);
    let errno = match fault {
        0 => 0,
        1 => 13, // EACCES
        _ => 5,  // EIO
    };
    vs::cell_set(2, errno);
    let rotate: bool = kani::any();
    let config = cfg();
    let r = index_for_rcurrent(&config, if known { Some(idx) } else { None }, rotate);
    // reference
    let start = if known { idx as u64 } else { highest_plus1 };
    if !rotate {
        assert!(vs::cell_get(4) == 0);
        assert!(matches!(r, Ok(v) if v as u64 == start));
    } else {
        assert!(vs::cell_get(4) == 1);
        // from = the CURRENT path, to = family name with the rendering of `start`
        assert!(vs::cell_get(5) == 1 && vs::cell_get(7) == 1);
        assert!(vs::cell_get(3) == start);
        assert!(vs::cell_get(6) == (b'0' + (start % 64) as u8) as u64);
        if errno != 0 {
            assert!(r.is_err());
        } else if have_current {
            assert!(matches!(r, Ok(v) if v as u64 == start + 1));
        } else {
            assert!(matches!(r, Ok(v) if v as u64 == start));
        }
    }
    kani::cover!(rotate && !known && highest_plus1 == 0 && have_current, "first rotation in an empty directory -> r00000");
    kani::cover!(rotate && !known && highest_plus1 == 7 && have_current, "restart with rotated files up to 6 -> r00007");
    kani::cover!(rotate && errno == 13, "rename fails with EACCES");
    kani::cover!(rotate && errno == 0 && !have_current, "current file missing: not an error");
    std::mem::forget(config);
    std::mem::forget(r);
}

// @verif prop=C16,C06 tier=probe timeout=600 bounds=idx<100000-symbolic
// number_infix(idx) == "r" followed by idx as 5 zero-padded decimal digits (injective for idx < 100000; ordering of the names = ordering of the numbers).
#[kani::proof]
#[kani::unwind(12)]
#[kani::stub(verif_support::reexp::catch_unwind, verif_support::stub_cu)]
fn c16_number_infix() {
    vs::link_all();
    let idx: u32 = kani::any();
    kani::assume(idx < 100_000);
    let s = number_infix(idx);
    let b = s.as_bytes();
    assert!(b.len() == 6 && b[0] == b'r');
    let mut v = 0u32;
    let mut i = 1;
    while i < 6 {
        assert!(b[i] >= b'0' && b[i] <= b'9');
        v = v * 10 + (b[i] - b'0') as u32;
        i += 1;
    }
    assert!(v == idx);
    kani::cover!(idx == 0, "r00000");
    kani::cover!(idx == 99_999, "r99999");
    std::mem::forget(s);
}
