// Harnesses that are children of `writers::file_log_writer::state::numbers`.
use super::*;
use crate::writers::file_log_writer::verif_harness::mk_config;
use crate::WriteMode;
use std::os::unix::ffi::OsStrExt;
use std::path::{Path, PathBuf};
use verif_support as vs;

// --- environment --------------------------------------------------------------------------------
// get_highest_index by contract: cell 0 = 0 (no rotated file) or idx + 1
fn stub_highest(_fs: &FileSpec) -> Option<u32> {
    let v = vs::cell_get(0);
    if v == 0 {
        None
    } else {
        Some((v - 1) as u32)
    }
}
// number_infix by an injective short rendering ("r" + idx as one char; harness keeps idx < 200):
// the decimal rendering itself is decided in c16_number_infix
fn stub_number_infix(idx: u32) -> String {
    vs::cell_set(3, idx as u64);
    let mut s = String::with_capacity(2);
    s.push('r');
    s.push((b'0' + (idx % 64) as u8) as char);
    s
}
// rename model: cell 1 = 1 if the rCURRENT file exists, cell 2 = errno to inject (0 = none).
// Records: cell 4 = number of calls, cell 5 = 1 if `from` is the CURRENT path, cell 6 = last byte
// of the infix in `to` (identifies the index rendering), cell 7 = 1 if `to` has the family shape.
fn stub_rename<P: AsRef<Path>, Q: AsRef<Path>>(from: P, to: Q) -> std::io::Result<()> {
    vs::cell_inc(4);
    let f = from.as_ref().as_os_str().as_bytes();
    let t = to.as_ref().as_os_str().as_bytes();
    vs::cell_set(5, if f == b"d/b_rCURRENT.l" { 1 } else { 0 });
    if t.len() == 8 && &t[..5] == b"d/b_r" && &t[6..] == b".l" {
        vs::cell_set(7, 1);
        vs::cell_set(6, t[5] as u64);
    }
    let inj = vs::cell_get(2);
    if inj != 0 {
        return Err(std::io::Error::from_raw_os_error(inj as i32));
    }
    if vs::cell_get(1) == 1 {
        vs::cell_set(1, 0);
        Ok(())
    } else {
        Err(std::io::Error::from_raw_os_error(2)) // ENOENT
    }
}
fn cfg() -> FileLogWriterConfig {
    mk_config(
        FileSpec::default().directory("d").basename("b").suffix("l").suppress_timestamp(),
        false,
        WriteMode::Direct,
    )
}

// as_pathbuf by an injective short model: "C" for the rCURRENT infix, "R<last byte of the infix>"
// otherwise (the real concatenation is decided in c16_as_pathbuf_parts).
fn stub_as_pathbuf(_fs: &FileSpec, o_infix: Option<&str>) -> PathBuf {
    let b = o_infix.unwrap_or("").as_bytes();
    if b == b"rCURRENT" {
        PathBuf::from("C")
    } else {
        let last = if b.is_empty() { b'?' } else { b[b.len() - 1] };
        let nb = [b'R', last];
        PathBuf::from(vs::str_from(&nb))
    }
}
fn stub_rename2<P: AsRef<Path>, Q: AsRef<Path>>(from: P, to: Q) -> std::io::Result<()> {
    vs::cell_inc(4);
    let f = from.as_ref().as_os_str().as_bytes();
    let t = to.as_ref().as_os_str().as_bytes();
    vs::cell_set(5, if f == b"C" { 1 } else { 0 });
    if t.len() == 2 && t[0] == b'R' {
        vs::cell_set(7, 1);
        vs::cell_set(6, t[1] as u64);
    }
    match vs::cell_get(2) {
        0 => Ok(()),
        e => Err(std::io::Error::from_raw_os_error(e as i32)),
    }
}
// The on-disk length of the current file is an arbitrary value (cell 10): with a buffering write
// mode it says nothing about the records accepted so far, and the decision to rotate must not
// depend on it. (The current code never asks; the stubs make any such question answerable.)
fn stub_metadata_ifr<P: AsRef<Path>>(_p: P) -> std::io::Result<std::fs::Metadata> {
    Ok(vs::zeroed_metadata())
}
fn stub_metadata_len_ifr(_m: &std::fs::Metadata) -> u64 {
    vs::cell_get(10)
}
// outcome of the rename is concrete per instance: 0 = succeeds, 2 = ENOENT (no current file), 13 = EACCES
fn index_for_rcurrent_case(errno: u64) {
    vs::link_all();
    let known: bool = kani::any();
    let idx: u32 = kani::any();
    kani::assume(idx < 200);
    let highest_plus1: u64 = kani::any();
    kani::assume(highest_plus1 <= 200);
    vs::cell_set(0, highest_plus1);
    vs::cell_set(2, errno);
    let on_disk_len: u64 = kani::any();
    vs::cell_set(10, on_disk_len);
    let rotate: bool = kani::any();
    let config = cfg();
    let r = index_for_rcurrent(&config, if known { Some(idx) } else { None }, rotate);
    // reference
    let start = if known { idx as u64 } else { highest_plus1 };
    if !rotate {
        assert!(vs::cell_get(4) == 0);
        assert!(matches!(r, Ok(v) if v as u64 == start));
    } else {
        assert!(vs::cell_get(4) == 1);
        // from = the CURRENT path, to = the family name carrying the rendering of `start`
        assert!(vs::cell_get(5) == 1 && vs::cell_get(7) == 1);
        assert!(vs::cell_get(3) == start);
        assert!(vs::cell_get(6) == (b'0' + (start % 64) as u8) as u64);
        if errno == 0 {
            assert!(matches!(r, Ok(v) if v as u64 == start + 1));
        } else if errno == 2 {
            assert!(matches!(r, Ok(v) if v as u64 == start));
        } else {
            assert!(r.is_err());
        }
    }
    kani::cover!(rotate && !known && highest_plus1 == 0, "first rotation in an empty directory -> r00000");
    kani::cover!(rotate && !known && highest_plus1 == 7, "restart with rotated files up to 6 -> r00007");
    kani::cover!(rotate && known, "rotation with a remembered index");
    std::mem::forget(config);
    std::mem::forget(r);
}
macro_rules! ifr_instance {
    ($name:ident, $errno:expr) => {
        #[kani::proof]
        #[kani::unwind(16)]
        #[kani::stub(verif_support::reexp::catch_unwind, verif_support::stub_cu)]
        #[kani::stub(crate::parameters::file_spec::TimestampCfg::get_timestamp, crate::parameters::file_spec::verif_harness::cut_get_timestamp)]
        #[kani::stub(get_highest_index, stub_highest)]
        #[kani::stub(number_infix, stub_number_infix)]
        #[kani::stub(crate::FileSpec::as_pathbuf, stub_as_pathbuf)]
        #[kani::stub(std::fs::rename, stub_rename2)]
        #[kani::stub(std::fs::metadata, stub_metadata_ifr)]
        #[kani::stub(std::fs::Metadata::len, stub_metadata_len_ifr)]
        fn $name() {
            index_for_rcurrent_case($errno);
        }
    };
}
// @verif prop=C06,C01,C15 tier=quick timeout=600 bounds=index-known(<200)-or-derived-from-highest-rotated-index(<200-or-none),rename-succeeds
// index_for_rcurrent: the closed rCURRENT file is renamed to exactly r<index>, index = the remembered one or (at start) one above the highest existing rotated number (0 if none) - never an existing number; the next index is index+1.
ifr_instance!(c06_index_for_rcurrent_ok, 0);
// @verif prop=C06,C19 tier=quick timeout=600 bounds=same,rename-reports-ENOENT(no-current-file)
// ... a missing current file is not an error and does not consume an index.
ifr_instance!(c06_index_for_rcurrent_enoent, 2);
// @verif prop=C19,C06 tier=quick timeout=600 bounds=same,rename-fails-with-EACCES
// ... any other rename failure is returned as Err (so that the rotation stops before the current file is re-opened and truncated).
ifr_instance!(c19_index_for_rcurrent_eacces, 13);

// @verif prop=C16,C06 tier=probe timeout=600 bounds=idx<100000-symbolic
// number_infix(idx) == "r" followed by idx as 5 zero-padded decimal digits (injective for idx < 100000; ordering of the names = ordering of the numbers).
#[kani::proof]
#[kani::unwind(12)]
#[kani::stub(verif_support::reexp::catch_unwind, verif_support::stub_cu)]
#[kani::stub(crate::parameters::file_spec::TimestampCfg::get_timestamp, crate::parameters::file_spec::verif_harness::cut_get_timestamp)]
fn c16_number_infix() {
    vs::link_all();
    let idx: u32 = kani::any();
    kani::assume(idx < 100_000);
    let s = number_infix(idx);
    let b = s.as_bytes();
    assert!(b.len() == 6 && b[0] == b'r');
    let mut v = 0u32;
    let mut i = 1;
    while i < 6 {
        assert!(b[i] >= b'0' && b[i] <= b'9');
        v = v * 10 + (b[i] - b'0') as u32;
        i += 1;
    }
    assert!(v == idx);
    kani::cover!(idx == 0, "r00000");
    kani::cover!(idx == 99_999, "r99999");
    std::mem::forget(s);
}

// ------------------------------------------------------------------------------------------------
// get_highest_index: listing by contract (cell 8 selects the directory content, cell 9 the digit)
fn hi_name(buf: &mut [u8; 24], prefix: &[u8], d: u8, tail: &[u8]) -> usize {
    let mut n = 0;
    let mut i = 0;
    while i < prefix.len() {
        buf[n] = prefix[i];
        n += 1;
        i += 1;
    }
    buf[n] = d;
    n += 1;
    i = 0;
    while i < tail.len() {
        buf[n] = tail[i];
        n += 1;
        i += 1;
    }
    n
}
fn stub_listing_hi(_fs: &FileSpec, _f: &InfixFilter) -> Vec<PathBuf> {
    let d = vs::cell_get(9) as u8;
    let mut buf = [0u8; 24];
    let mut v = Vec::with_capacity(2);
    match vs::cell_get(8) {
        0 => {}
        1 => {
            let n = hi_name(&mut buf, b"d/b_r0000", d, b".l");
            v.push(PathBuf::from(vs::str_from(&buf[..n])));
        }
        2 => {
            let n = hi_name(&mut buf, b"d/my_r_r0000", d, b".l");
            v.push(PathBuf::from(vs::str_from(&buf[..n])));
        }
        3 => {
            let n = hi_name(&mut buf, b"d/b_r0000", d, b".l.gz");
            v.push(PathBuf::from(vs::str_from(&buf[..n])));
        }
        5 => {
            // a foreign file with a short number-like infix that the Numbers filter accepts
            let n = hi_name(&mut buf, b"d/b_r1", d, b".l");
            v.push(PathBuf::from(vs::str_from(&buf[..n])));
        }
        _ => {
            // two files: the higher number decides, whatever the order
            let n = hi_name(&mut buf, b"d/b_r0000", d, b".l");
            v.push(PathBuf::from(vs::str_from(&buf[..n])));
            v.push(PathBuf::from("d/b_r00003.l"));
        }
    }
    v
}
fn highest_case(dir_kind: u64, basename: &str) {
    vs::link_all();
    // the digit is concrete: with a symbolic digit std's two-way string searcher (rsplit("_r")) and
    // the integer parser over symbolic bytes did not finish in 10 min
    let d: u8 = b'7';
    vs::cell_set(8, dir_kind);
    vs::cell_set(9, d as u64);
    let spec = FileSpec::default().directory("d").basename(basename).suffix("l").suppress_timestamp();
    let r = get_highest_index(&spec);
    let dv = (d - b'0') as u32;
    match dir_kind {
        0 => assert!(r.is_none()),
        4 => assert!(r == Some(if dv > 3 { dv } else { 3 })),
        5 => assert!(r == Some(10 + dv)),
        _ => assert!(r == Some(dv)),
    }
    kani::cover!(true, "executed");
    std::mem::forget(spec);
}
macro_rules! highest_instance {
    ($name:ident, $kind:expr, $basename:expr) => {
        #[kani::proof]
        #[kani::unwind(20)]
        #[kani::stub(verif_support::reexp::catch_unwind, verif_support::stub_cu)]
        #[kani::stub(crate::parameters::file_spec::TimestampCfg::get_timestamp, crate::parameters::file_spec::verif_harness::cut_get_timestamp)]
        #[kani::stub(crate::writers::file_log_writer::state::list_and_cleanup::list_of_log_and_compressed_files, stub_listing_hi)]
        fn $name() {
            highest_case($kind, $basename);
        }
    };
}
// @verif prop=C06 tier=quick timeout=600 bounds=empty-listing
// get_highest_index: no rotated file -> None (numbering starts at 0).
highest_instance!(c06_highest_none, 0, "b");
// @verif prop=C06 tier=quick timeout=600 bounds=one-plain-rotated-file-b_r0000<D>.l,D=7
// get_highest_index reads the number of a plain rotated file, so a restart continues above it and never re-uses an existing number.
highest_instance!(c06_highest_plain, 1, "b");
// @verif prop=C06 tier=quick timeout=600 bounds=basename-containing-"_r"(my_r),file-my_r_r0000<D>.l
// ... also when the configured name parts themselves contain "_r".
highest_instance!(c06_highest_basename_with_r, 2, "my_r");
// @verif prop=C10,C06 tier=quick timeout=600 bounds=foreign-file-b_r1<D>.l(short-number-like-infix)
// ... a pre-existing file with a short number-like infix (b_r1<D>.l passes the Numbers filter) is read without panic.
highest_instance!(c10_highest_short_infix, 5, "b");
// @verif prop=C06 tier=quick timeout=600 bounds=two-files(r0000<D>,r00003)
// ... the maximum over several files.
highest_instance!(c06_highest_two, 4, "b");
// @verif prop=C06 tier=quick timeout=600 bounds=one-compressed-rotated-file-b_r0000<D>.l.gz replay=highest_index_gz
// ... and the number of a *compressed* rotated file (b_r0000<D>.l.gz): a directory that only holds compressed files must not make the numbering start again below them.
highest_instance!(c06_highest_compressed, 3, "b");


// ================================================================================================
// C11 (Numbers naming): every directory state that a kill between two file-system effects of a
// rotation can leave behind, as the start state of a new run. Effects of one rotation, in the order
// decided by c01_rotate_numbers_size: E1 rename(rCURRENT -> r<idx>), E2 open/create(rCURRENT),
// E3.. cleanup removals, then the write. Kill point k: 0 = before E1, 1 = between E1 and E2,
// 2 = after E2 (current file exists again, possibly empty).
fn restart_after_kill_case(errno_of_rename: u64) {
    vs::link_all();
    let idx: u32 = kani::any(); // index the killed process was about to assign
    kani::assume(idx >= 1 && idx < 150);
    let k: u8 = kani::any();
    kani::assume(k < 3);
    // directory left behind
    let current_exists = k == 0 || k == 2;
    let highest = if k == 0 { idx - 1 } else { idx }; // r<idx> exists once E1 happened
    // this instance covers the kill points whose restart sees the rename succeed / report ENOENT
    kani::assume(current_exists == (errno_of_rename == 0));
    vs::cell_set(0, highest as u64 + 1);
    vs::cell_set(2, errno_of_rename);
    let append: bool = kani::any();
    let config = cfg();
    let r = index_for_rcurrent(&config, None, !append);
    // the new run starts without error ...
    assert!(r.is_ok());
    let next = match r {
        Ok(v) => v,
        Err(_) => 0,
    };
    // ... never re-uses a number that exists on disk (no earlier record is overwritten) ...
    if !append {
        assert!(vs::cell_get(4) == 1 && vs::cell_get(3) == highest as u64 + 1);
        assert!(next == if current_exists { highest + 2 } else { highest + 1 });
    } else {
        assert!(vs::cell_get(4) == 0 && next == highest + 1);
    }
    assert!(next > highest);
    kani::cover!(errno_of_rename == 0 || k == 1, "killed between the rename and the re-open: no current file on disk");
    kani::cover!(errno_of_rename != 0 || (k == 2 && !append), "killed after the re-open; restart without append rotates the (possibly empty) current file");
    kani::cover!(errno_of_rename != 0 || (k == 0 && append), "killed before the rotation began; restart with append continues");
}
// @verif prop=C11,C06 tier=quick timeout=600 bounds=kill-points{before-rename,after-reopen},index<150,append-symbolic
// A run killed before the rename or after the re-open of a rotation (current file present): a new logger on that directory starts without error and its next rotation number is above every number on disk.
#[kani::proof]
#[kani::unwind(16)]
#[kani::stub(verif_support::reexp::catch_unwind, verif_support::stub_cu)]
#[kani::stub(crate::parameters::file_spec::TimestampCfg::get_timestamp, crate::parameters::file_spec::verif_harness::cut_get_timestamp)]
#[kani::stub(get_highest_index, stub_highest)]
#[kani::stub(number_infix, stub_number_infix)]
#[kani::stub(crate::FileSpec::as_pathbuf, stub_as_pathbuf)]
#[kani::stub(std::fs::rename, stub_rename2)]
fn c11_restart_after_kill_current_present() {
    restart_after_kill_case(0);
}
// @verif prop=C11,C06 tier=quick timeout=600 bounds=kill-point-between-rename-and-reopen(no-current-file),index<150,append-symbolic
// A run killed between the rename and the re-open (no current file on disk): the new logger starts without error (the missing current file is not an error) and continues above every number on disk.
#[kani::proof]
#[kani::unwind(16)]
#[kani::stub(verif_support::reexp::catch_unwind, verif_support::stub_cu)]
#[kani::stub(crate::parameters::file_spec::TimestampCfg::get_timestamp, crate::parameters::file_spec::verif_harness::cut_get_timestamp)]
#[kani::stub(get_highest_index, stub_highest)]
#[kani::stub(number_infix, stub_number_infix)]
#[kani::stub(crate::FileSpec::as_pathbuf, stub_as_pathbuf)]
#[kani::stub(std::fs::rename, stub_rename2)]
fn c11_restart_after_kill_current_missing() {
    restart_after_kill_case(2);
}
