// Children of `primary_writer`: "cut" stubs for PrimaryWriter arms a harness does not construct.
// CBMC's symbolic execution does not fold enum discriminants that went through a heap move
// (Arc::new / Box::new are byte-wise copies), so `match *self { Std(..) | Multi(..) | Test(..) }`
// explores every arm although the constructed variant is concrete. A harness that builds a
// `Multi` writer replaces the other arms' callees by these functions: reaching one is a reported
// failure ("VERIF-CUT"), never a silently pruned path.
use super::*;

pub(crate) fn cut_test_write(_w: &TestWriter, _now: &mut DeferredNow, _r: &Record) -> std::io::Result<()> {
    unreachable!("VERIF-CUT TestWriter::write")
}
pub(crate) fn cut_std_write(_w: &StdWriter, _now: &mut DeferredNow, _r: &Record) -> std::io::Result<()> {
    unreachable!("VERIF-CUT StdWriter::write")
}
pub(crate) fn cut_test_flush(_w: &TestWriter) -> std::io::Result<()> {
    unreachable!("VERIF-CUT TestWriter::flush")
}
pub(crate) fn cut_std_flush(_w: &StdWriter) -> std::io::Result<()> {
    unreachable!("VERIF-CUT StdWriter::flush")
}
pub(crate) fn cut_test_shutdown(_w: &TestWriter) {
    unreachable!("VERIF-CUT TestWriter::shutdown")
}
pub(crate) fn cut_std_shutdown(_w: &StdWriter) {
    unreachable!("VERIF-CUT StdWriter::shutdown")
}
pub(crate) fn cut_pw_llw_write(_w: &PrimaryWriter, _now: &mut DeferredNow, _r: &Record) -> std::io::Result<()> {
    unreachable!("VERIF-CUT <PrimaryWriter as LogLineWriter>::write")
}
// Recording stand-in for the primary MultiWriter (cell 2 = deliveries to the default channel,
// cell 8 = second-of-minute it observed + 1). MultiWriter::write itself is decided in its own
// harnesses (C13 duplication); here it is the observation point "record reached the default channel".
pub(crate) fn rec_multi_write(_w: &MultiWriter, now: &mut DeferredNow, _r: &Record) -> std::io::Result<()> {
    use chrono::Timelike;
    verif_support::cell_inc(2);
    let s = now.now().second();
    verif_support::cell_set(8, s as u64 + 1);
    Ok(())
}
