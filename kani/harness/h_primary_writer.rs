// Children of `primary_writer`: "cut" stubs for PrimaryWriter arms a harness does not construct.
// CBMC's symbolic execution does not fold enum discriminants that went through a heap move
// (Arc::new / Box::new are byte-wise copies), so `match *self { Std(..) | Multi(..) | Test(..) }`
// explores every arm although the constructed variant is concrete. A harness that builds a
// `Multi` writer replaces the other arms' callees by these functions: reaching one is a reported
// failure ("VERIF-CUT"), never a silently pruned path.
use super::*;

pub(crate) fn cut_test_write(_w: &TestWriter, _now: &mut DeferredNow, _r: &Record) -> std::io::Result<()> {
    unreachable!("VERIF-CUT TestWriter::write")
}
pub(crate) fn cut_std_write(_w: &StdWriter, _now: &mut DeferredNow, _r: &Record) -> std::io::Result<()> {
    unreachable!("VERIF-CUT StdWriter::write")
}
pub(crate) fn cut_test_flush(_w: &TestWriter) -> std::io::Result<()> {
    unreachable!("VERIF-CUT TestWriter::flush")
}
pub(crate) fn cut_std_flush(_w: &StdWriter) -> std::io::Result<()> {
    unreachable!("VERIF-CUT StdWriter::flush")
}
pub(crate) fn cut_test_shutdown(_w: &TestWriter) {
    unreachable!("VERIF-CUT TestWriter::shutdown")
}
pub(crate) fn cut_std_shutdown(_w: &StdWriter) {
    unreachable!("VERIF-CUT StdWriter::shutdown")
}
pub(crate) fn cut_pw_llw_write(_w: &PrimaryWriter, _now: &mut DeferredNow, _r: &Record) -> std::io::Result<()> {
    unreachable!("VERIF-CUT <PrimaryWriter as LogLineWriter>::write")
}
// Recording stand-in for the primary MultiWriter (cell 2 = deliveries to the default channel,
// cell 8 = second-of-minute it observed + 1). MultiWriter::write itself is decided in its own
// harnesses (C13 duplication); here it is the observation point "record reached the default channel".
pub(crate) fn rec_multi_write(_w: &MultiWriter, now: &mut DeferredNow, _r: &Record) -> std::io::Result<()> {
    use chrono::Timelike;
    verif_support::cell_inc(2);
    let s = now.now().second();
    verif_support::cell_set(8, s as u64 + 1);
    Ok(())
}

// ------------------------------------------------------------------------------------------------
// C04: PrimaryWriter::shutdown (reached by LoggerHandle::shutdown and by the drop of the last
// handle) flushes the primary channel before / while shutting it down, so that a writer behind it
// which buffers and relies on the LogWriter trait's default no-op shutdown() does not keep
// completed records. MultiWriter::flush / ::shutdown are recorders here (what they forward to is
// decided by c04_multiwriter_forwarding); the other PrimaryWriter arms are cut.
fn rec_multi_flush(_w: &MultiWriter) -> std::io::Result<()> {
    verif_support::cell_inc(14);
    Ok(())
}
fn rec_multi_shutdown(_w: &MultiWriter) {
    // remember how many flushes had happened when the shutdown arrived
    verif_support::cell_set(16, verif_support::cell_get(14) + 1);
    verif_support::cell_inc(15);
}
fn nop_format(_w: &mut dyn std::io::Write, _now: &mut DeferredNow, _r: &Record) -> std::io::Result<()> {
    Ok(())
}
// @verif prop=C04 tier=quick timeout=600 bounds=PrimaryWriter::Multi,shutdown()
// PrimaryWriter::shutdown on the Multi writer (file and/or writer output): the writer is flushed at least once and shut down exactly once by the time the call returns.
#[kani::proof]
#[kani::unwind(4)]
#[kani::stub(verif_support::reexp::catch_unwind, verif_support::stub_cu)]
#[kani::stub(<crate::primary_writer::multi_writer::MultiWriter as crate::writers::LogWriter>::flush, rec_multi_flush)]
#[kani::stub(<crate::primary_writer::multi_writer::MultiWriter as crate::writers::LogWriter>::shutdown, rec_multi_shutdown)]
#[kani::stub(<crate::primary_writer::test_writer::TestWriter as crate::writers::LogWriter>::flush, cut_test_flush)]
#[kani::stub(<crate::primary_writer::std_writer::StdWriter as crate::writers::LogWriter>::flush, cut_std_flush)]
#[kani::stub(<crate::primary_writer::test_writer::TestWriter as crate::writers::LogWriter>::shutdown, cut_test_shutdown)]
#[kani::stub(<crate::primary_writer::std_writer::StdWriter as crate::writers::LogWriter>::shutdown, cut_std_shutdown)]
fn c04_primary_shutdown_flushes() {
    verif_support::link_all();
    let pw = PrimaryWriter::multi(crate::Duplicate::None, crate::Duplicate::None, false, nop_format, nop_format, None, None);
    pw.shutdown();
    assert!(verif_support::cell_get(14) >= 1);
    assert!(verif_support::cell_get(15) == 1);
    kani::cover!(verif_support::cell_get(16) >= 1, "shutdown reached");
    std::mem::forget(pw);
}
