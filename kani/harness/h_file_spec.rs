// Harnesses that are children of `parameters::file_spec`.
use super::*;
use std::os::unix::ffi::OsStrExt;
use verif_support as vs;

fn stub_format(_a: std::fmt::Arguments<'_>) -> String {
    String::new()
}
fn mk_spec(basename: &str, discr: Option<&str>, suffix: Option<&str>) -> FileSpec {
    FileSpec {
        directory: PathBuf::from("d"),
        basename: basename.to_string(),
        o_discriminant: discr.map(|s| s.to_string()),
        timestamp_cfg: TimestampCfg::No,
        o_suffix: suffix.map(|s| s.to_string()),
        use_utc: false,
    }
}
// reference concatenation, byte-wise into a fixed buffer
fn push(buf: &mut [u8; 32], n: &mut usize, s: &[u8]) {
    let mut i = 0;
    while i < s.len() {
        buf[*n] = s[i];
        *n += 1;
        i += 1;
    }
}
fn bytes_eq(a: &[u8], b: &[u8]) -> bool {
    if a.len() != b.len() {
        return false;
    }
    let mut i = 0;
    while i < a.len() {
        if a[i] != b[i] {
            return false;
        }
        i += 1;
    }
    true
}

// @verif prop=C16 tier=quick timeout=600 bounds=all-2^4-present/absent-combinations-of{basename,discriminant,infix,suffix},1-2-byte-parts,no-start-time
// as_pathbuf(infix) == directory / [basename][_discriminant][_infix][.suffix] with absent parts and their separators omitted (start time part suppressed: it needs the clock, see c16 with clock).
#[kani::proof]
#[kani::unwind(12)]
#[kani::stub(verif_support::reexp::catch_unwind, verif_support::stub_cu)]
fn c16_as_pathbuf_parts() {
    vs::link_all();
    let has_b: bool = kani::any();
    let has_d: bool = kani::any();
    let has_i: bool = kani::any();
    let has_s: bool = kani::any();
    let empty_infix: bool = kani::any();
    let spec = mk_spec(if has_b { "b" } else { "" }, if has_d { Some("dc") } else { None }, if has_s { Some("l") } else { None });
    let infix: Option<&str> = if has_i { Some(if empty_infix { "" } else { "r1" }) } else { None };
    let p = spec.as_pathbuf(infix);
    let mut buf = [0u8; 32];
    let mut n = 0usize;
    push(&mut buf, &mut n, b"d/");
    let mut name_empty = true;
    if has_b {
        push(&mut buf, &mut n, b"b");
        name_empty = false;
    }
    if has_d {
        if !name_empty {
            push(&mut buf, &mut n, b"_");
        }
        push(&mut buf, &mut n, b"dc");
        name_empty = false;
    }
    if has_i && !empty_infix {
        if !name_empty {
            push(&mut buf, &mut n, b"_");
        }
        push(&mut buf, &mut n, b"r1");
    }
    if has_s {
        push(&mut buf, &mut n, b".l");
    }
    assert!(bytes_eq(p.as_os_str().as_bytes(), &buf[..n]));
    // fixed_name_part is the prefix shared by all files of the family
    let f = spec.fixed_name_part();
    let mut fb = [0u8; 32];
    let mut fnn = 0usize;
    if has_b {
        push(&mut fb, &mut fnn, b"b");
    }
    if has_d {
        if has_b {
            push(&mut fb, &mut fnn, b"_");
        }
        push(&mut fb, &mut fnn, b"dc");
    }
    assert!(bytes_eq(f.as_bytes(), &fb[..fnn]));
    kani::cover!(!has_b && !has_d && has_i && !empty_infix && !has_s, "infix is the whole name");
    kani::cover!(has_b && has_d && has_i && has_s, "all parts");
    kani::cover!(!has_b && !has_d && !has_i && has_s, "suffix only");
    std::mem::forget(spec);
    std::mem::forget(p);
}

// @verif prop=C16 tier=quick timeout=600 bounds=name-parts-ending-in-'_'(basename"b_",discriminant"d_"),infix-present/absent
// The separator rule is positional, not content based: a part that itself ends in '_' still gets its separator ("b_" + "d_" + "r1" -> b__d__r1.l), so that the listing (which expects fixed part + '_' + infix) and the naming agree.
#[kani::proof]
#[kani::unwind(14)]
#[kani::stub(verif_support::reexp::catch_unwind, verif_support::stub_cu)]
fn c16_as_pathbuf_trailing_underscore() {
    vs::link_all();
    let has_d: bool = kani::any();
    let has_i: bool = kani::any();
    let spec = mk_spec("b_", if has_d { Some("d_") } else { None }, Some("l"));
    let p = spec.as_pathbuf(if has_i { Some("r1") } else { None });
    let mut buf = [0u8; 32];
    let mut n = 0usize;
    push(&mut buf, &mut n, b"d/b_");
    if has_d {
        push(&mut buf, &mut n, b"_d_");
    }
    if has_i {
        push(&mut buf, &mut n, b"_r1");
    }
    push(&mut buf, &mut n, b".l");
    assert!(bytes_eq(p.as_os_str().as_bytes(), &buf[..n]));
    kani::cover!(has_d && has_i, "all parts");
    std::mem::forget(spec);
    std::mem::forget(p);
}

// ------------------------------------------------------------------------------------------------
// C14 / C10: which directory entries does the family filter accept?
use crate::writers::file_log_writer::verif_harness::{infix_filter_equals, infix_filter_numbers};

fn family_spec() -> FileSpec {
    mk_spec("b", None, Some("l"))
}
fn accepted(spec: &FileSpec, name: &str, filter: &InfixFilter, suffix: Option<&str>) -> bool {
    let mut p = PathBuf::from("d");
    p.push(name);
    let files = [p];
    let r = spec.filter_files(&files, filter, suffix);
    let n = r.len();
    std::mem::forget(r);
    n == 1
}

// Symbolic name bytes did not finish (std's path / lossy-UTF-8 machinery over symbolic content:
// > 6 GB after 10 min); the names are a concrete menu of family members and near misses, decided
// against the documented pattern [fixed part]_<infix>[.restart-NNNN].<suffix>. CBMC executes the
// real filter on each and reports any panic (slice / char-boundary) on the way.
fn expect(spec: &FileSpec, name: &str, suffix: Option<&str>, want: bool) {
    let acc = accepted(spec, name, &infix_filter_numbers(), suffix);
    assert!(acc == want);
}
// @verif prop=C14,C16 tier=quick timeout=900 bounds=spec(basename-b,suffix-l),Numbers-filter,menu-of-8-names
// Family members are listed, near misses are not: other suffix, no suffix at all, longer basename sharing the prefix, missing infix, current-file infix (Numbers filter), infix-like fragment inside a longer name.
#[kani::proof]
#[kani::unwind(16)]
#[kani::stub(verif_support::reexp::catch_unwind, verif_support::stub_cu)]
fn c14_filter_menu_basename() {
    vs::link_all();
    let spec = family_spec();
    expect(&spec, "b_r00001.l", Some("l"), true);
    expect(&spec, "b_r00001.x", Some("l"), false);
    expect(&spec, "b_r00001", Some("l"), false);
    expect(&spec, "bb_r00001.l", Some("l"), false);
    expect(&spec, "b.l", Some("l"), false);
    expect(&spec, "b_.l", Some("l"), false);
    expect(&spec, "b_rCURRENT.l", Some("l"), false);
    expect(&spec, "b_x_r00001.l", Some("l"), false);
    kani::cover!(true, "menu executed");
    std::mem::forget(spec);
}
// @verif prop=C14,C16 tier=thorough timeout=900 bounds=spec(basename-b,suffix-l),name"b_r00001.restart-0000.l"
// A rotated file carrying a collision suffix (.restart-0000) belongs to the family.
#[kani::proof]
#[kani::unwind(26)]
#[kani::stub(verif_support::reexp::catch_unwind, verif_support::stub_cu)]
fn c14_filter_restart_member() {
    vs::link_all();
    let spec = family_spec();
    expect(&spec, "b_r00001.restart-0000.l", Some("l"), true);
    kani::cover!(true, "executed");
    std::mem::forget(spec);
}
// @verif prop=C14,C16 tier=quick timeout=900 bounds=spec(no-basename,discriminant-dc,suffix-l),menu-of-5-names
// Without a basename but with a discriminant the family's files are still recognised (the infix follows the fixed part "dc_"), foreign ones are not.
#[kani::proof]
#[kani::unwind(16)]
#[kani::stub(verif_support::reexp::catch_unwind, verif_support::stub_cu)]
fn c14_filter_menu_discriminant_only() {
    vs::link_all();
    let spec = mk_spec("", Some("dc"), Some("l"));
    expect(&spec, "dc_r00001.l", Some("l"), true);
    expect(&spec, "dc_r00001.l.gz", Some("gz"), true);
    expect(&spec, "dc_r00001", Some("l"), false);
    expect(&spec, "dcx_r00001.l", Some("l"), false);
    expect(&spec, "dc.l", Some("l"), false);
    kani::cover!(true, "menu executed");
    std::mem::forget(spec);
}
// @verif prop=C14,C16,C01 tier=quick timeout=900 bounds=spec(no-name-parts,suffix-l),menu-of-4-names
// With no fixed name part at all the infix is the whole stem.
#[kani::proof]
#[kani::unwind(16)]
#[kani::stub(verif_support::reexp::catch_unwind, verif_support::stub_cu)]
fn c14_filter_menu_infix_only() {
    vs::link_all();
    let spec = mk_spec("", None, Some("l"));
    expect(&spec, "r00001.l", Some("l"), true);
    expect(&spec, "r00001", Some("l"), false);
    expect(&spec, "xr00001.l", Some("l"), false);
    expect(&spec, "r.l", Some("l"), false);
    kani::cover!(true, "menu executed");
    std::mem::forget(spec);
}
// @verif prop=C14 tier=quick timeout=900 replay=foreign_listing bounds=spec(basename-b,suffix-l),name"bXr00001.l"
// (repaired defect, kept as a regression check) a foreign file with another byte in the separator position (bXr00001.l) must not be listed.
#[kani::proof]
#[kani::unwind(16)]
#[kani::stub(verif_support::reexp::catch_unwind, verif_support::stub_cu)]
fn c14_filter_separator_not_checked() {
    vs::link_all();
    let spec = family_spec();
    expect(&spec, "bXr00001.l", Some("l"), false);
    std::mem::forget(spec);
}
// @verif prop=C14 tier=quick timeout=900 replay=foreign_listing bounds=spec(basename-b,suffix-l),name"b_r00001.x.l" expect=fail kf=C14-tail
// KNOWN-FINDING twin: a foreign file with an arbitrary extra dotted part after the infix (b_r00001.x.l) must not be listed.
#[kani::proof]
#[kani::unwind(16)]
#[kani::stub(verif_support::reexp::catch_unwind, verif_support::stub_cu)]
fn c14_filter_tail_ignored() {
    vs::link_all();
    let spec = family_spec();
    expect(&spec, "b_r00001.x.l", Some("l"), false);
    std::mem::forget(spec);
}
// @verif prop=C10,C14 tier=quick timeout=900 replay=foreign_listing bounds=spec(basename-b,suffix-l),name"b\u{e9}r01.l"
// (repaired defect, kept as a regression check) a foreign file whose name has a multi-byte character where the separator would be (b\u{e9}r01.l) must not make the listing panic.
#[kani::proof]
#[kani::unwind(16)]
#[kani::stub(verif_support::reexp::catch_unwind, verif_support::stub_cu)]
fn c10_filter_multibyte_boundary() {
    vs::link_all();
    let spec = family_spec();
    expect(&spec, "b\u{e9}r01.l", Some("l"), false);
    std::mem::forget(spec);
}
