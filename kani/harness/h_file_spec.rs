// Harnesses that are children of `parameters::file_spec`.
use super::*;
use std::os::unix::ffi::OsStrExt;
use verif_support as vs;

fn stub_format(_a: std::fmt::Arguments<'_>) -> String {
    String::new()
}
fn mk_spec(basename: &str, discr: Option<&str>, suffix: Option<&str>) -> FileSpec {
    FileSpec {
        directory: PathBuf::from("d"),
        basename: basename.to_string(),
        o_discriminant: discr.map(|s| s.to_string()),
        timestamp_cfg: TimestampCfg::No,
        o_suffix: suffix.map(|s| s.to_string()),
        use_utc: false,
    }
}
// reference concatenation, byte-wise into a fixed buffer
fn push(buf: &mut [u8; 32], n: &mut usize, s: &[u8]) {
    let mut i = 0;
    while i < s.len() {
        buf[*n] = s[i];
        *n += 1;
        i += 1;
    }
}
fn bytes_eq(a: &[u8], b: &[u8]) -> bool {
    if a.len() != b.len() {
        return false;
    }
    let mut i = 0;
    while i < a.len() {
        if a[i] != b[i] {
            return false;
        }
        i += 1;
    }
    true
}

// @verif prop=C16 tier=quick timeout=600 bounds=the-8-present/absent-combinations-of{discriminant,infix,suffix}-with-basename(+empty-infix),1-2-byte-parts,no-start-time
// as_pathbuf(infix) == directory / [basename][_discriminant][_infix][.suffix] with absent parts and their separators omitted (start time part suppressed: it needs the clock, see c16 with clock).
#[kani::proof]
#[kani::unwind(12)]
#[kani::stub(verif_support::reexp::catch_unwind, verif_support::stub_cu)]
#[kani::stub(TimestampCfg::get_timestamp, cut_get_timestamp)]
fn c16_as_pathbuf_parts() {
    as_pathbuf_parts_case(true);
}
// @verif prop=C16 tier=quick timeout=600 bounds=the-8-combinations-without-basename
// The same for specifications without basename (split off to halve the wall clock).
#[kani::proof]
#[kani::unwind(12)]
#[kani::stub(verif_support::reexp::catch_unwind, verif_support::stub_cu)]
#[kani::stub(TimestampCfg::get_timestamp, cut_get_timestamp)]
fn c16_as_pathbuf_parts_no_basename() {
    as_pathbuf_parts_case(false);
}
fn as_pathbuf_parts_case(has_b: bool) {
    vs::link_all();
    let has_d: bool = kani::any();
    let has_i: bool = kani::any();
    let has_s: bool = kani::any();
    let empty_infix: bool = kani::any();
    let spec = mk_spec(if has_b { "b" } else { "" }, if has_d { Some("dc") } else { None }, if has_s { Some("l") } else { None });
    let infix: Option<&str> = if has_i { Some(if empty_infix { "" } else { "r1" }) } else { None };
    let p = spec.as_pathbuf(infix);
    let mut buf = [0u8; 32];
    let mut n = 0usize;
    push(&mut buf, &mut n, b"d/");
    let mut name_empty = true;
    if has_b {
        push(&mut buf, &mut n, b"b");
        name_empty = false;
    }
    if has_d {
        if !name_empty {
            push(&mut buf, &mut n, b"_");
        }
        push(&mut buf, &mut n, b"dc");
        name_empty = false;
    }
    if has_i && !empty_infix {
        if !name_empty {
            push(&mut buf, &mut n, b"_");
        }
        push(&mut buf, &mut n, b"r1");
    }
    if has_s {
        push(&mut buf, &mut n, b".l");
    }
    assert!(bytes_eq(p.as_os_str().as_bytes(), &buf[..n]));
    // fixed_name_part is the prefix shared by all files of the family
    let f = spec.fixed_name_part();
    let mut fb = [0u8; 32];
    let mut fnn = 0usize;
    if has_b {
        push(&mut fb, &mut fnn, b"b");
    }
    if has_d {
        if has_b {
            push(&mut fb, &mut fnn, b"_");
        }
        push(&mut fb, &mut fnn, b"dc");
    }
    assert!(bytes_eq(f.as_bytes(), &fb[..fnn]));
    kani::cover!(has_b || (!has_d && has_i && !empty_infix && !has_s), "infix is the whole name (instance without basename)");
    kani::cover!(!has_b || (has_d && has_i && has_s), "all parts (instance with basename)");
    kani::cover!(has_b || (!has_d && !has_i && has_s), "suffix only (instance without basename)");
    std::mem::forget(spec);
    std::mem::forget(p);
}

// @verif prop=C16 tier=quick timeout=600 bounds=name-parts-ending-in-'_'(basename"b_",discriminant"d_"),infix-present/absent
// The separator rule is positional, not content based: a part that itself ends in '_' still gets its separator ("b_" + "d_" + "r1" -> b__d__r1.l), so that the listing (which expects fixed part + '_' + infix) and the naming agree.
#[kani::proof]
#[kani::unwind(14)]
#[kani::stub(verif_support::reexp::catch_unwind, verif_support::stub_cu)]
#[kani::stub(TimestampCfg::get_timestamp, cut_get_timestamp)]
fn c16_as_pathbuf_trailing_underscore() {
    vs::link_all();
    let has_d: bool = kani::any();
    let has_i: bool = kani::any();
    let spec = mk_spec("b_", if has_d { Some("d_") } else { None }, Some("l"));
    let p = spec.as_pathbuf(if has_i { Some("r1") } else { None });
    let mut buf = [0u8; 32];
    let mut n = 0usize;
    push(&mut buf, &mut n, b"d/b_");
    if has_d {
        push(&mut buf, &mut n, b"_d_");
    }
    if has_i {
        push(&mut buf, &mut n, b"_r1");
    }
    push(&mut buf, &mut n, b".l");
    assert!(bytes_eq(p.as_os_str().as_bytes(), &buf[..n]));
    kani::cover!(has_d && has_i, "all parts");
    std::mem::forget(spec);
    std::mem::forget(p);
}

// @verif prop=C16 tier=quick timeout=600 bounds=suffix-present-but-empty(as-derived-from-a-path-ending-in-a-dot),infix-present/absent
// A present-but-empty suffix is still a suffix: the name ends in the dot ("b." / "b_r1."), which is what FileSpec::try_from("d/b.") must denote and what the listing (extension == "") expects.
#[kani::proof]
#[kani::unwind(12)]
#[kani::stub(verif_support::reexp::catch_unwind, verif_support::stub_cu)]
#[kani::stub(TimestampCfg::get_timestamp, cut_get_timestamp)]
fn c16_as_pathbuf_empty_suffix() {
    vs::link_all();
    let has_i: bool = kani::any();
    let spec = mk_spec("b", None, Some(""));
    let p = spec.as_pathbuf(if has_i { Some("r1") } else { None });
    let mut buf = [0u8; 32];
    let mut n = 0usize;
    push(&mut buf, &mut n, b"d/b");
    if has_i {
        push(&mut buf, &mut n, b"_r1");
    }
    push(&mut buf, &mut n, b".");
    assert!(bytes_eq(p.as_os_str().as_bytes(), &buf[..n]));
    kani::cover!(has_i, "with infix");
    kani::cover!(!has_i, "without infix");
    std::mem::forget(spec);
    std::mem::forget(p);
}

// ------------------------------------------------------------------------------------------------
// C14 / C10: which directory entries does the family filter accept?
use crate::writers::file_log_writer::verif_harness::{infix_filter_equals, infix_filter_numbers};

fn family_spec() -> FileSpec {
    mk_spec("b", None, Some("l"))
}
fn accepted(spec: &FileSpec, name: &str, filter: &InfixFilter, suffix: Option<&str>) -> bool {
    let mut p = PathBuf::from("d");
    p.push(name);
    let files = [p];
    let r = spec.filter_files(&files, filter, suffix);
    let n = r.len();
    std::mem::forget(r);
    n == 1
}

// Symbolic name bytes did not finish (std's path / lossy-UTF-8 machinery over symbolic content:
// > 6 GB after 10 min); the names are a concrete menu of family members and near misses, decided
// against the documented pattern [fixed part]_<infix>[.restart-NNNN].<suffix>. CBMC executes the
// real filter on each and reports any panic (slice / char-boundary) on the way.
fn expect(spec: &FileSpec, name: &str, suffix: Option<&str>, want: bool) {
    let acc = accepted(spec, name, &infix_filter_numbers(), suffix);
    assert!(acc == want);
}
// @verif prop=C14,C16 tier=quick timeout=900 bounds=spec(basename-b,suffix-l),Numbers-filter,menu-of-8-names
// Family members are listed, near misses are not: other suffix, no suffix at all, longer basename sharing the prefix, missing infix, current-file infix (Numbers filter), infix-like fragment inside a longer name.
#[kani::proof]
#[kani::unwind(16)]
#[kani::stub(verif_support::reexp::catch_unwind, verif_support::stub_cu)]
#[kani::stub(TimestampCfg::get_timestamp, cut_get_timestamp)]
fn c14_filter_menu_basename() {
    vs::link_all();
    let spec = family_spec();
    expect(&spec, "b_r00001.l", Some("l"), true);
    expect(&spec, "b_r00001.x", Some("l"), false);
    expect(&spec, "b_r00001", Some("l"), false);
    expect(&spec, "bb_r00001.l", Some("l"), false);
    expect(&spec, "b.l", Some("l"), false);
    expect(&spec, "b_.l", Some("l"), false);
    expect(&spec, "b_rCURRENT.l", Some("l"), false);
    expect(&spec, "b_x_r00001.l", Some("l"), false);
    kani::cover!(true, "menu executed");
    std::mem::forget(spec);
}
// @verif prop=C14,C16 tier=thorough timeout=900 bounds=spec(basename-b,suffix-l),name"b_r00001.restart-0000.l"
// A rotated file carrying a collision suffix (.restart-0000) belongs to the family.
#[kani::proof]
#[kani::unwind(26)]
#[kani::stub(verif_support::reexp::catch_unwind, verif_support::stub_cu)]
#[kani::stub(TimestampCfg::get_timestamp, cut_get_timestamp)]
fn c14_filter_restart_member() {
    vs::link_all();
    let spec = family_spec();
    expect(&spec, "b_r00001.restart-0000.l", Some("l"), true);
    kani::cover!(true, "executed");
    std::mem::forget(spec);
}
// @verif prop=C14,C16 tier=quick timeout=900 bounds=spec(no-basename,discriminant-dc,suffix-l),menu-of-5-names
// Without a basename but with a discriminant the family's files are still recognised (the infix follows the fixed part "dc_"), foreign ones are not.
#[kani::proof]
#[kani::unwind(16)]
#[kani::stub(verif_support::reexp::catch_unwind, verif_support::stub_cu)]
#[kani::stub(TimestampCfg::get_timestamp, cut_get_timestamp)]
fn c14_filter_menu_discriminant_only() {
    vs::link_all();
    let spec = mk_spec("", Some("dc"), Some("l"));
    expect(&spec, "dc_r00001.l", Some("l"), true);
    expect(&spec, "dc_r00001.l.gz", Some("gz"), true);
    expect(&spec, "dc_r00001", Some("l"), false);
    expect(&spec, "dcx_r00001.l", Some("l"), false);
    expect(&spec, "dc.l", Some("l"), false);
    kani::cover!(true, "menu executed");
    std::mem::forget(spec);
}
// @verif prop=C14,C16,C01 tier=quick timeout=900 bounds=spec(no-name-parts,suffix-l),menu-of-4-names
// With no fixed name part at all the infix is the whole stem.
#[kani::proof]
#[kani::unwind(16)]
#[kani::stub(verif_support::reexp::catch_unwind, verif_support::stub_cu)]
#[kani::stub(TimestampCfg::get_timestamp, cut_get_timestamp)]
fn c14_filter_menu_infix_only() {
    vs::link_all();
    let spec = mk_spec("", None, Some("l"));
    expect(&spec, "r00001.l", Some("l"), true);
    expect(&spec, "r00001", Some("l"), false);
    expect(&spec, "xr00001.l", Some("l"), false);
    expect(&spec, "r.l", Some("l"), false);
    kani::cover!(true, "menu executed");
    std::mem::forget(spec);
}
// @verif prop=C14 tier=quick timeout=900 replay=foreign_listing bounds=spec(basename-b,suffix-l),name"bXr00001.l"
// (repaired defect, kept as a regression check) a foreign file with another byte in the separator position (bXr00001.l) must not be listed.
#[kani::proof]
#[kani::unwind(16)]
#[kani::stub(verif_support::reexp::catch_unwind, verif_support::stub_cu)]
#[kani::stub(TimestampCfg::get_timestamp, cut_get_timestamp)]
fn c14_filter_separator_not_checked() {
    vs::link_all();
    let spec = family_spec();
    expect(&spec, "bXr00001.l", Some("l"), false);
    std::mem::forget(spec);
}
// @verif prop=C14 tier=quick timeout=900 replay=foreign_listing bounds=spec(basename-b,suffix-l),name"b_r00001.x.l" expect=fail kf=C14-tail
// KNOWN-FINDING twin: a foreign file with an arbitrary extra dotted part after the infix (b_r00001.x.l) must not be listed.
#[kani::proof]
#[kani::unwind(16)]
#[kani::stub(verif_support::reexp::catch_unwind, verif_support::stub_cu)]
#[kani::stub(TimestampCfg::get_timestamp, cut_get_timestamp)]
fn c14_filter_tail_ignored() {
    vs::link_all();
    let spec = family_spec();
    expect(&spec, "b_r00001.x.l", Some("l"), false);
    std::mem::forget(spec);
}
// @verif prop=C10,C14 tier=quick timeout=900 replay=foreign_listing bounds=spec(basename-b,suffix-l),name"b\u{e9}r01.l"
// (repaired defect, kept as a regression check) a foreign file whose name has a multi-byte character where the separator would be (b\u{e9}r01.l) must not make the listing panic.
#[kani::proof]
#[kani::unwind(16)]
#[kani::stub(verif_support::reexp::catch_unwind, verif_support::stub_cu)]
#[kani::stub(TimestampCfg::get_timestamp, cut_get_timestamp)]
fn c10_filter_multibyte_boundary() {
    vs::link_all();
    let spec = family_spec();
    expect(&spec, "b\u{e9}r01.l", Some("l"), false);
    std::mem::forget(spec);
}

// ------------------------------------------------------------------------------------------------
// C10 / C19: the directory listing when the log directory cannot be read (removed externally,
// or not readable): every caller - the rotation step of the timestamp namings (inside the log call),
// cleanup, get_highest_index at start, LoggerHandle::existing_log_files - goes through
// read_dir_related_files. The fault is concrete (ENOENT resp. EACCES from std::fs::read_dir).
fn stub_read_dir_enoent<P: AsRef<Path>>(_p: P) -> std::io::Result<std::fs::ReadDir> {
    vs::cell_inc(0);
    Err(std::io::Error::from_raw_os_error(vs::cell_get(1) as i32))
}
fn stub_read_dir_eacces<P: AsRef<Path>>(_p: P) -> std::io::Result<std::fs::ReadDir> {
    vs::cell_inc(0);
    Err(std::io::Error::from_raw_os_error(vs::cell_get(1) as i32 + 11))
}
// cut: the specification of these instances has no start-time part (TimestampCfg::No); the arm that
// renders the clock (chrono; pulls every chrono error type into the drop glue of io::Error) is not taken
pub(crate) fn cut_get_timestamp(cfg: &TimestampCfg) -> Option<String> {
    match cfg {
        TimestampCfg::No => None,
        _ => unreachable!("VERIF-CUT: start-time part requested in an instance without one"),
    }
}
fn listing_dir_unreadable_case() {
    vs::link_all();
    vs::cell_set(0, 0);
    vs::cell_set(1, 2);
    let spec = family_spec();
    let v = spec.read_dir_related_files();
    assert!(v.is_empty());
    assert!(vs::cell_get(0) == 1);
    kani::cover!(true, "listing returned");
    std::mem::forget(spec);
    std::mem::forget(v);
}
// @verif prop=C10,C19 tier=quick timeout=600 replay=dir_gone bounds=spec(basename-b,suffix-l),read_dir-fails-with-ENOENT(concrete-fault)
// The log directory was removed externally: listing the family's files does not panic and yields no files (the rotation step, cleanup and existing_log_files all list through this function).
#[kani::proof]
#[kani::unwind(3)]
#[kani::stub(verif_support::reexp::catch_unwind, verif_support::stub_cu)]
#[kani::stub(TimestampCfg::get_timestamp, cut_get_timestamp)]
#[kani::stub(std::fs::read_dir, stub_read_dir_enoent)]
fn c10_listing_dir_gone() {
    listing_dir_unreadable_case();
}
// @verif prop=C10,C19 tier=quick timeout=600 replay=dir_gone bounds=spec(basename-b,suffix-l),read_dir-fails-with-EACCES(concrete-fault)
// The same for a directory that cannot be read (EACCES).
#[kani::proof]
#[kani::unwind(3)]
#[kani::stub(verif_support::reexp::catch_unwind, verif_support::stub_cu)]
#[kani::stub(TimestampCfg::get_timestamp, cut_get_timestamp)]
#[kani::stub(std::fs::read_dir, stub_read_dir_eacces)]
fn c10_listing_dir_unreadable() {
    listing_dir_unreadable_case();
}

// ------------------------------------------------------------------------------------------------
// C06 / C10 / C14: collision_free_infix_for_rotated_file (timestamp namings): the name of the file
// that is about to be created by a rotation must not collide with an existing plain or compressed
// file, must continue the `.restart-NNNN` numbering of *this* family and infix only, and must not
// panic on what the family itself produces (compressed restart siblings).
//
// Environment: one directory state per instance, seen consistently through both channels the
// function uses: (1) `list_of_files(Equls(infix), suffix)` is replaced by its contract - "the
// files of the directory that the family filter accepts for this infix and suffix, descending"
// (the real `filter_files` is decided on the same names by the c14_filter_* menus) - and
// (2) `Path::exists` answers membership in the same directory. The presence of the two *target*
// names (`b_rT.l`, `b_rT.l.gz`) is symbolic where the instance says so; the sibling / foreign
// names are a concrete menu. std path functions run as byte-wise models (support crate
// `stdmodels`, validated natively against std); `format!` is a marker, see below.
fn cfi_path(name: &str) -> PathBuf {
    let mut p = PathBuf::from("d");
    p.push(name);
    p
}
fn ends_with_gz(n: &str) -> bool {
    let b = n.as_bytes();
    b.len() >= 3 && b[b.len() - 3] == b'.' && b[b.len() - 2] == b'g' && b[b.len() - 1] == b'z'
}
// cells 0/1: presence of the plain / compressed target (0/1); 2: suffix-less family (1) or not (0);
// 3: number of exists() queries for other paths
fn cfi_plain_name() -> &'static str {
    if vs::cell_get(2) == 1 { "b_rT" } else { "b_rT.l" }
}
fn cfi_gz_name() -> &'static str {
    if vs::cell_get(2) == 1 { "b_rT.gz" } else { "b_rT.l.gz" }
}
fn stub_exists(p: &Path) -> bool {
    let b = p.as_os_str().as_bytes();
    let nosfx = vs::cell_get(2) == 1;
    let plain: &[u8] = if nosfx { b"d/b_rT" } else { b"d/b_rT.l" };
    let gz: &[u8] = if nosfx { b"d/b_rT.gz" } else { b"d/b_rT.l.gz" };
    if bytes_eq(b, plain) {
        vs::cell_get(0) == 1
    } else if bytes_eq(b, gz) {
        vs::cell_get(1) == 1
    } else {
        vs::cell_inc(3);
        false
    }
}
// `format!` dispatches through a raw function pointer (`fmt::rt::Argument::fmt`); CBMC explores every
// signature-compatible Display/Debug implementation linked into the crate (chrono's parser, io::Error,
// ...: probed, no result in 15 min). The only format! in the function under test renders the restart
// suffix, so it is replaced by a one-byte marker: the harness decides *whether* a restart suffix is
// appended and - through the recording stub of `str::parse` below - *which* sibling's number is
// continued; the rendering `+ 1` / `{:04}` itself is outside the claim.
fn stub_format_marker(_a: std::fmt::Arguments<'_>) -> String {
    String::from("~")
}
// cell 4: number of parse calls, cell 5: length of the last parsed text, cell 6: its bytes (big endian)
fn stub_parse_rec<F: std::str::FromStr>(s: &str) -> Result<F, F::Err> {
    vs::cell_inc(4);
    vs::cell_set(5, s.len() as u64);
    let b = s.as_bytes();
    let mut w = 0u64;
    let mut i = 0;
    while i < b.len() && i < 8 {
        w = (w << 8) | b[i] as u64;
        i += 1;
    }
    vs::cell_set(6, w);
    F::from_str(s)
}
// presence: None = symbolic, Some(x) = concrete
fn cfi_case(nosfx: bool, p1: Option<bool>, p2: Option<bool>, sibling_next: Option<&[u8]>) {
    vs::link_all();
    // symbolic presence is only tractable with a listing that does not show the targets (see below)
    vs::cell_set(7, if p1.is_none() || p2.is_none() { 1 } else { 0 });
    let e1: bool = match p1 { Some(x) => x, None => kani::any() };
    let e2: bool = match p2 { Some(x) => x, None => kani::any() };
    vs::cell_set(0, e1 as u64);
    vs::cell_set(1, e2 as u64);
    vs::cell_set(2, nosfx as u64);
    vs::cell_set(3, 0);
    vs::cell_set(4, 0);
    let spec = mk_spec("b", None, if nosfx { None } else { Some("l") });
    let r = spec.collision_free_infix_for_rotated_file("rT");
    match sibling_next {
        // restart siblings of this infix exist: a restart suffix is appended and the numbering
        // continues after the highest sibling (its four digits are what is parsed)
        Some(want) => {
            assert!(bytes_eq(r.as_bytes(), b"rT~"));
            assert!(vs::cell_get(4) == 1 && vs::cell_get(5) == 4);
            let w = ((want[0] as u64) << 24) | ((want[1] as u64) << 16) | ((want[2] as u64) << 8) | want[3] as u64;
            assert!(vs::cell_get(6) == w);
        }
        // none: the plain infix iff neither the plain nor the compressed target exists, else a
        // restart suffix (numbered from scratch: nothing is parsed)
        None => {
            if e1 || (e2 && !nosfx) {
                assert!(bytes_eq(r.as_bytes(), b"rT~"));
            } else if !e2 {
                assert!(bytes_eq(r.as_bytes(), b"rT"));
            }
            // (suffix-less family and only `b_rT.gz` exists: not decided - the crate never produces a
            // compressed twin of a suffix-less plain name, and probes `b_rT..gz` there; either answer
            // is accepted)
            assert!(vs::cell_get(4) == 0);
        }
    }
    kani::cover!(e1 || p1 == Some(false), "plain target exists (where the instance allows it)");
    kani::cover!(e2 || p2 == Some(false), "compressed target exists (where the instance allows it)");
    kani::cover!((!e1 && !e2) || p1 == Some(true) || p2 == Some(true), "no target collision (where the instance allows it)");
    std::mem::forget(spec);
    std::mem::forget(r);
}
macro_rules! cfi_instance {
    ($name:ident, $dirstub:ident, $nosfx:expr, $p1:expr, $p2:expr, [$($file:expr),*], $want:expr) => {
        // contract stub of list_of_files for this instance's directory
        fn $dirstub(_s: &FileSpec, _f: &InfixFilter, sfx: Option<&str>) -> Vec<PathBuf> {
            let gz = match sfx {
                Some(x) => bytes_eq(x.as_bytes(), b"gz"),
                None => false,
            };
            let nosfx_all = sfx.is_none(); // suffix-less family: the plain listing has no suffix filter
            let mut v: Vec<PathBuf> = Vec::with_capacity(6);
            $( if nosfx_all || ends_with_gz($file) == gz { v.push(cfi_path($file)); } )*
            // cell 7 = 1: the listing misses the target files although they exist (the family filter is
            // lossy, e.g. for suffix-less families with a dot in the basename; or the file appeared
            // after the directory was read) - the contract of list_of_files is only "a subset of the
            // family's files"
            if (gz || nosfx_all) && vs::cell_get(1) == 1 && vs::cell_get(7) == 0 {
                v.push(cfi_path(cfi_gz_name()));
            }
            if !gz && vs::cell_get(0) == 1 && vs::cell_get(7) == 0 {
                v.push(cfi_path(cfi_plain_name()));
            }
            v
        }
        #[kani::proof]
        #[kani::unwind(28)]
        #[kani::stub(verif_support::reexp::catch_unwind, verif_support::stub_cu)]
        #[kani::stub(crate::parameters::file_spec::FileSpec::list_of_files, $dirstub)]
        #[kani::stub(std::path::Path::exists, stub_exists)]
        #[kani::stub(std::path::PathBuf::set_extension, verif_support::set_extension_model)]
        #[kani::stub(std::path::Path::file_name, verif_support::pathm::file_name)]
        #[kani::stub(std::path::Path::file_stem, verif_support::pathm::file_stem)]
        #[kani::stub(std::path::Path::extension, verif_support::pathm::extension)]
        #[kani::stub(std::fmt::format, stub_format_marker)]
        #[kani::stub(str::parse, stub_parse_rec)]
        #[kani::stub(TimestampCfg::get_timestamp, cut_get_timestamp)]
        #[kani::stub(str::find, verif_support::str_find_model)]
        #[kani::stub(str::contains, verif_support::str_contains_model)]
        #[kani::stub(std::ffi::OsStr::to_string_lossy, verif_support::osstr_to_string_lossy_model)]
        #[kani::stub(std::path::Path::to_string_lossy, verif_support::path_to_string_lossy_model)]
        fn $name() {
            cfi_case($nosfx, $p1, $p2, $want);
        }
    };
}
// Any *non-empty* listing did not finish (15 min, also for one concrete file): the function's
// iterator chains over heap vectors defeat CBMC's constant propagation, every downstream loop
// (two-way string search, path parsing) is then unwound to the bound. Those instances stay probes.
// What is decided: the listing shows nothing of this infix, while the existence of the two target
// names is symbolic - listed-but-missing cannot happen, existing-but-not-listed can (lossy family
// filter for dotted suffix-less names, files appearing after the directory was read).
// @verif prop=C06,C16,C01 tier=quick timeout=900 bounds=timestamp-infix"rT",spec(b,suffix-l),listing-shows-nothing-of-this-infix,existence-of-b_rT.l-and-b_rT.l.gz-symbolic
// No restart sibling listed: the infix is used as is iff neither <name>_rT.l nor <name>_rT.l.gz exists (existence symbolic, asked for exactly these two paths); otherwise a restart suffix is appended - a rotated file never takes the name of an existing plain or compressed file.
cfi_instance!(c06_cfi_no_siblings, cfi_dir_0, false, None, None, [], None);
// @verif prop=C06,C16 tier=quick timeout=900 bounds=timestamp-infix"rT",spec(b,suffix-l),directory{}
// Nothing of this infix in the directory: the infix is used as is.
cfi_instance!(c06_cfi_dir_empty, cfi_dir_00, false, Some(false), Some(false), [], None);
// @verif prop=C06,C01 tier=probe timeout=900 bounds=directory{b_rT.l}
// The plain target exists: a restart suffix is appended (never rename onto / truncate an existing rotated file).
cfi_instance!(c06_cfi_dir_plain, cfi_dir_10, false, Some(true), Some(false), [], None);
// @verif prop=C06 tier=probe timeout=900 bounds=directory{b_rT.l.gz}
// Only the compressed target exists: a restart suffix is appended (a later compression would overwrite it otherwise).
cfi_instance!(c06_cfi_dir_gz, cfi_dir_01, false, Some(false), Some(true), [], None);
// @verif prop=C06 tier=probe timeout=900 bounds=directory{b_rT.restart-0000.l,b_rT.l}
// One plain restart sibling: a restart suffix is appended, and it is the sibling's number (the four digits 0000) that is continued.
cfi_instance!(c06_cfi_plain_sibling, cfi_dir_1, false, Some(true), Some(false), ["b_rT.restart-0000.l"], Some(b"0000"));
// @verif prop=C06,C10 tier=probe timeout=900 bounds=directory{b_rT.restart-0000.l.gz,b_rT.l.gz}
// One *compressed* restart sibling (what cleanup with compression leaves): no panic, its number (0000) is continued.
cfi_instance!(c06_cfi_gz_sibling, cfi_dir_2, false, Some(false), Some(true), ["b_rT.restart-0000.l.gz"], Some(b"0000"));
// @verif prop=C06 tier=probe timeout=900 bounds=directory{b_rT.restart-0001.l,b_rT.restart-0000.l.gz,b_rT.l.gz}
// Mixed plain and compressed siblings: the highest number (0001) is continued.
cfi_instance!(c06_cfi_mixed_siblings, cfi_dir_3, false, Some(false), Some(true), ["b_rT.restart-0001.l", "b_rT.restart-0000.l.gz"], Some(b"0001"));
// @verif prop=C14,C06 tier=probe timeout=900 bounds=directory{b_rT.restart-0005.x.gz}(foreign:-other-inner-suffix;-the-.gz-listing-does-not-look-inside)
// A foreign compressed file with another inner suffix that the .gz listing lets through does not influence the name chosen.
cfi_instance!(c14_cfi_foreign_ignored, cfi_dir_4, false, Some(false), Some(false), ["b_rT.restart-0005.x.gz"], None);
// @verif prop=C06,C16 tier=probe timeout=900 bounds=spec-without-suffix,directory{b_rT.restart-0002,b_rT.restart-0001.gz,b_rT}
// Family without suffix: siblings are recognised, plain and compressed; the highest (0002) is continued.
cfi_instance!(c06_cfi_nosuffix_siblings, cfi_dir_5, true, Some(true), Some(false), ["b_rT.restart-0002", "b_rT.restart-0001.gz"], Some(b"0002"));
// @verif prop=C06 tier=probe timeout=900 bounds=spec-without-suffix,no-restart-sibling,presence-of-b_rT-symbolic
// Family without suffix, no sibling: collision decided by the presence of b_rT.
cfi_instance!(c06_cfi_nosuffix_none, cfi_dir_6, true, None, Some(false), [], None);
