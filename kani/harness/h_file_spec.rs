// Harnesses that are children of `parameters::file_spec`.
use super::*;
use std::os::unix::ffi::OsStrExt;
use verif_support as vs;

fn stub_format(_a: std::fmt::Arguments<'_>) -> String {
    String::new()
}
fn mk_spec(basename: &str, discr: Option<&str>, suffix: Option<&str>) -> FileSpec {
    FileSpec {
        directory: PathBuf::from("d"),
        basename: basename.to_string(),
        o_discriminant: discr.map(|s| s.to_string()),
        timestamp_cfg: TimestampCfg::No,
        o_suffix: suffix.map(|s| s.to_string()),
        use_utc: false,
    }
}
// reference concatenation, byte-wise into a fixed buffer
fn push(buf: &mut [u8; 32], n: &mut usize, s: &[u8]) {
    let mut i = 0;
    while i < s.len() {
        buf[*n] = s[i];
        *n += 1;
        i += 1;
    }
}
fn bytes_eq(a: &[u8], b: &[u8]) -> bool {
    if a.len() != b.len() {
        return false;
    }
    let mut i = 0;
    while i < a.len() {
        if a[i] != b[i] {
            return false;
        }
        i += 1;
    }
    true
}

// @verif prop=C16 tier=quick timeout=600 bounds=all-2^4-present/absent-combinations-of{basename,discriminant,infix,suffix},1-2-byte-parts,no-start-time
// as_pathbuf(infix) == directory / [basename][_discriminant][_infix][.suffix] with absent parts and their separators omitted (start time part suppressed: it needs the clock, see c16 with clock).
#[kani::proof]
#[kani::unwind(12)]
#[kani::stub(verif_support::reexp::catch_unwind, verif_support::stub_cu)]
fn c16_as_pathbuf_parts() {
    vs::link_all();
    let has_b: bool = kani::any();
    let has_d: bool = kani::any();
    let has_i: bool = kani::any();
    let has_s: bool = kani::any();
    let empty_infix: bool = kani::any();
    let spec = mk_spec(if has_b { "b" } else { "" }, if has_d { Some("dc") } else { None }, if has_s { Some("l") } else { None });
    let infix: Option<&str> = if has_i { Some(if empty_infix { "" } else { "r1" }) } else { None };
    let p = spec.as_pathbuf(infix);
    let mut buf = [0u8; 32];
    let mut n = 0usize;
    push(&mut buf, &mut n, b"d/");
    let mut name_empty = true;
    if has_b {
        push(&mut buf, &mut n, b"b");
        name_empty = false;
    }
    if has_d {
        if !name_empty {
            push(&mut buf, &mut n, b"_");
        }
        push(&mut buf, &mut n, b"dc");
        name_empty = false;
    }
    if has_i && !empty_infix {
        if !name_empty {
            push(&mut buf, &mut n, b"_");
        }
        push(&mut buf, &mut n, b"r1");
    }
    if has_s {
        push(&mut buf, &mut n, b".l");
    }
    assert!(bytes_eq(p.as_os_str().as_bytes(), &buf[..n]));
    // fixed_name_part is the prefix shared by all files of the family
    let f = spec.fixed_name_part();
    let mut fb = [0u8; 32];
    let mut fnn = 0usize;
    if has_b {
        push(&mut fb, &mut fnn, b"b");
    }
    if has_d {
        if has_b {
            push(&mut fb, &mut fnn, b"_");
        }
        push(&mut fb, &mut fnn, b"dc");
    }
    assert!(bytes_eq(f.as_bytes(), &fb[..fnn]));
    kani::cover!(!has_b && !has_d && has_i && !empty_infix && !has_s, "infix is the whole name");
    kani::cover!(has_b && has_d && has_i && has_s, "all parts");
    kani::cover!(!has_b && !has_d && !has_i && has_s, "suffix only");
    std::mem::forget(spec);
    std::mem::forget(p);
}
