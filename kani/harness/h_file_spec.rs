// Harnesses that are children of `parameters::file_spec`.
use super::*;
use std::os::unix::ffi::OsStrExt;
use verif_support as vs;

fn stub_format(_a: std::fmt::Arguments<'_>) -> String {
    String::new()
}
fn mk_spec(basename: &str, discr: Option<&str>, suffix: Option<&str>) -> FileSpec {
    FileSpec {
        directory: PathBuf::from("d"),
        basename: basename.to_string(),
        o_discriminant: discr.map(|s| s.to_string()),
        timestamp_cfg: TimestampCfg::No,
        o_suffix: suffix.map(|s| s.to_string()),
        use_utc: false,
    }
}
// reference concatenation, byte-wise into a fixed buffer
fn push(buf: &mut [u8; 32], n: &mut usize, s: &[u8]) {
    let mut i = 0;
    while i < s.len() {
        buf[*n] = s[i];
        *n += 1;
        i += 1;
    }
}
fn bytes_eq(a: &[u8], b: &[u8]) -> bool {
    if a.len() != b.len() {
        return false;
    }
    let mut i = 0;
    while i < a.len() {
        if a[i] != b[i] {
            return false;
        }
        i += 1;
    }
    true
}

// @verif prop=C16 tier=quick timeout=600 bounds=all-2^4-present/absent-combinations-of{basename,discriminant,infix,suffix},1-2-byte-parts,no-start-time
// as_pathbuf(infix) == directory / [basename][_discriminant][_infix][.suffix] with absent parts and their separators omitted (start time part suppressed: it needs the clock, see c16 with clock).
#[kani::proof]
#[kani::unwind(12)]
#[kani::stub(verif_support::reexp::catch_unwind, verif_support::stub_cu)]
fn c16_as_pathbuf_parts() {
    vs::link_all();
    let has_b: bool = kani::any();
    let has_d: bool = kani::any();
    let has_i: bool = kani::any();
    let has_s: bool = kani::any();
    let empty_infix: bool = kani::any();
    let spec = mk_spec(if has_b { "b" } else { "" }, if has_d { Some("dc") } else { None }, if has_s { Some("l") } else { None });
    let infix: Option<&str> = if has_i { Some(if empty_infix { "" } else { "r1" }) } else { None };
    let p = spec.as_pathbuf(infix);
    let mut buf = [0u8; 32];
    let mut n = 0usize;
    push(&mut buf, &mut n, b"d/");
    let mut name_empty = true;
    if has_b {
        push(&mut buf, &mut n, b"b");
        name_empty = false;
    }
    if has_d {
        if !name_empty {
            push(&mut buf, &mut n, b"_");
        }
        push(&mut buf, &mut n, b"dc");
        name_empty = false;
    }
    if has_i && !empty_infix {
        if !name_empty {
            push(&mut buf, &mut n, b"_");
        }
        push(&mut buf, &mut n, b"r1");
    }
    if has_s {
        push(&mut buf, &mut n, b".l");
    }
    assert!(bytes_eq(p.as_os_str().as_bytes(), &buf[..n]));
    // fixed_name_part is the prefix shared by all files of the family
    let f = spec.fixed_name_part();
    let mut fb = [0u8; 32];
    let mut fnn = 0usize;
    if has_b {
        push(&mut fb, &mut fnn, b"b");
    }
    if has_d {
        if has_b {
            push(&mut fb, &mut fnn, b"_");
        }
        push(&mut fb, &mut fnn, b"dc");
    }
    assert!(bytes_eq(f.as_bytes(), &fb[..fnn]));
    kani::cover!(!has_b && !has_d && has_i && !empty_infix && !has_s, "infix is the whole name");
    kani::cover!(has_b && has_d && has_i && has_s, "all parts");
    kani::cover!(!has_b && !has_d && !has_i && has_s, "suffix only");
    std::mem::forget(spec);
    std::mem::forget(p);
}

// ------------------------------------------------------------------------------------------------
// C14 / C10: which directory entries does the family filter accept?
use crate::writers::file_log_writer::verif_harness::{infix_filter_equals, infix_filter_numbers};

fn family_spec() -> FileSpec {
    mk_spec("b", None, Some("l"))
}
fn accepted(spec: &FileSpec, name: &str, filter: &InfixFilter, suffix: Option<&str>) -> bool {
    let mut p = PathBuf::from("d");
    p.push(name);
    let files = [p];
    let r = spec.filter_files(&files, filter, suffix);
    let n = r.len();
    std::mem::forget(r);
    n == 1
}

// @verif prop=C14 tier=quick timeout=900 bounds=name"b<X>r<D>0001.l",X,D-any-printable-ASCII,Numbers-scheme
// A directory entry b<X>r<D>0001.l is accepted as a rotated file of the family (basename b, suffix l, Numbers) only if X is the separator '_' and D is a digit: near misses with another byte in the separator position are foreign files and must not be listed (and hence never cleaned up).
#[kani::proof]
#[kani::unwind(14)]
#[kani::stub(verif_support::reexp::catch_unwind, verif_support::stub_cu)]
fn c14_filter_separator_and_digit() {
    vs::link_all();
    let x: u8 = kani::any();
    let d: u8 = kani::any();
    kani::assume(x >= 0x21 && x <= 0x7e && x != b'/' && x != b'.');
    kani::assume(d >= 0x21 && d <= 0x7e && d != b'/' && d != b'.');
    let nb = [b'b', x, b'r', d, b'0', b'0', b'0', b'1', b'.', b'l'];
    let name = vs::str_from(&nb);
    let spec = family_spec();
    let acc = accepted(&spec, name, &infix_filter_numbers(), Some("l"));
    let want = x == b'_' && d >= b'0' && d <= b'9';
    if acc {
        assert!(want);
    }
    if want {
        assert!(acc);
    }
    kani::cover!(acc, "accepted");
    kani::cover!(!acc && x == b'_', "rejected because of the infix");
    std::mem::forget(spec);
}
