// Harnesses that are children of `writers::file_log_writer`.
use super::*;
use crate::log_specification::verif_harness::{any_filter, any_level};
use crate::WriteMode;
use verif_support as vs;

// re-exports for harness modules elsewhere in the crate (private items of this module tree)
pub(crate) use super::state::InfixFormat as InfixFormatAlias;
pub(crate) fn infix_filter_numbers() -> InfixFilter {
    InfixFilter::Numbrs
}
pub(crate) fn infix_filter_ts_std() -> InfixFilter {
    InfixFilter::Timstmps(super::state::InfixFormat::Std)
}
pub(crate) fn infix_filter_equals(s: &str) -> InfixFilter {
    InfixFilter::Equls(s.to_string())
}

pub(crate) fn mk_config(file_spec: FileSpec, append: bool, write_mode: WriteMode) -> FileLogWriterConfig {
    FileLogWriterConfig {
        print_message: false,
        append,
        write_mode,
        file_spec,
        o_create_symlink: None,
        line_ending: UNIX_LINE_ENDING,
        use_utc: false,
    }
}

// recording stand-in for StateHandle::write (framing and the state machine are decided elsewhere)
fn rec_sh_write(_h: &StateHandle, _now: &mut DeferredNow, _r: &Record) -> std::io::Result<()> {
    vs::cell_inc(0);
    Ok(())
}
fn cut_start_sync_flusher(_s: std::sync::Arc<std::sync::Mutex<State>>, _d: std::time::Duration) {
    unreachable!("VERIF-CUT start_sync_flusher (no flush interval configured)")
}
fn fmt_nop(_w: &mut dyn std::io::Write, _now: &mut DeferredNow, _r: &Record) -> std::io::Result<()> {
    Ok(())
}

// @verif prop=C13 tier=quick timeout=600 bounds=all-6-ceilings-x-5-levels
// FileLogWriter::write forwards a record to its state handle iff level <= max_log_level: no writer emits a record above its configured maximum level; max_log_level() reports the configured value.
#[kani::proof]
#[kani::unwind(6)]
#[kani::stub(verif_support::reexp::catch_unwind, verif_support::stub_cu)]
#[kani::stub(crate::parameters::file_spec::TimestampCfg::get_timestamp, crate::parameters::file_spec::verif_harness::cut_get_timestamp)]
#[kani::stub(crate::writers::file_log_writer::state_handle::StateHandle::write, rec_sh_write)]
#[kani::stub(crate::writers::file_log_writer::state::start_sync_flusher, cut_start_sync_flusher)]
fn c13_flw_ceiling() {
    vs::link_all();
    let spec = FileSpec::default().directory("d").basename("b").suppress_timestamp();
    let state = State::new(mk_config(spec, false, WriteMode::Direct), None, false);
    let ceiling = any_filter();
    let flw = FileLogWriter::new(state, ceiling, fmt_nop);
    let level = any_level();
    let mut now = DeferredNow::new();
    let r = log::Record::builder().level(level).target("t").args(format_args!("m")).build();
    LogWriter::write(&flw, &mut now, &r).ok();
    let expect = (level as usize) <= (ceiling as usize);
    assert!(vs::cell_get(0) == if expect { 1 } else { 0 });
    assert!(flw.max_log_level() == ceiling);
    kani::cover!(expect && level as usize == ceiling as usize, "record exactly at the ceiling is written");
    kani::cover!(!expect, "record above the ceiling is dropped");
    std::mem::forget(flw);
}
