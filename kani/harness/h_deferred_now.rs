// Harnesses that are children of `deferred_now`.
use super::*;
use chrono::{FixedOffset, NaiveDate, Timelike};
use verif_support as vs;

fn dt_of(i: &vs::Instant) -> DateTime<Local> {
    let fo = FixedOffset::east_opt(i.off).unwrap();
    let ndt = NaiveDate::from_ymd_opt(i.y, i.mo, i.d).unwrap().and_hms_opt(i.h, i.mi, i.s).unwrap();
    DateTime::from_naive_utc_and_offset(ndt - fo, fo)
}
fn stub_now() -> DateTime<Local> {
    dt_of(&vs::clock_next())
}
// any other clock source (Utc::now) would bypass the memoised value: make it visible
fn stub_utc_now() -> DateTime<Utc> {
    vs::cell_inc(15);
    let i = vs::clock_next();
    dt_of(&i).into()
}

// @verif prop=C20 tier=quick timeout=600 bounds=clock-yields-3-distinct-instants,symbolic-second/offset,local-and-UTC-accessors-in-any-of-4-orders
// One DeferredNow value carries one timestamp: whichever accessor (now / now_utc_owned) is used first, the clock is read exactly once and every later call - local or UTC - returns that same instant, so all outputs of one record render the same time.
#[kani::proof]
#[kani::unwind(6)]
#[kani::stub(verif_support::reexp::catch_unwind, verif_support::stub_cu)]
#[kani::stub(chrono::Local::now, stub_now)]
#[kani::stub(chrono::Utc::now, stub_utc_now)]
fn c20_deferred_now_once() {
    vs::link_all();
    let s: u32 = kani::any();
    kani::assume(s < 50);
    let k: usize = kani::any();
    kani::assume(k < 3);
    let off = [0, 3600, -34200][k];
    vs::clock_push(vs::Instant { y: 2024, mo: 2, d: 29, h: 23, mi: 59, s, off });
    vs::clock_push(vs::Instant { y: 2024, mo: 2, d: 29, h: 23, mi: 59, s: s + 1, off });
    vs::clock_push(vs::Instant { y: 2024, mo: 2, d: 29, h: 23, mi: 59, s: s + 2, off });
    let utc_first: bool = kani::any();
    let utc_second: bool = kani::any();
    let mut d = DeferredNow::new();
    let first: DateTime<Utc> = if utc_first { d.now_utc_owned() } else { (*d.now()).into() };
    let second: DateTime<Utc> = if utc_second { d.now_utc_owned() } else { (*d.now()).into() };
    let third: DateTime<Utc> = (*d.now()).into();
    assert!(first == second && second == third);
    assert!(first.second() == s || off == -34200); // the first clock value (offset -9:30 shifts the UTC second by 0: 30 min) 
    assert!(vs::clock_reads() == 1);
    assert!(vs::cell_get(15) == 0);
    kani::cover!(utc_first && !utc_second, "UTC accessor first, local accessor second");
    kani::cover!(!utc_first && utc_second, "local accessor first, UTC accessor second");
}
