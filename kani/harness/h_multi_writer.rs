// Harnesses that are children of `primary_writer::multi_writer`.
use super::*;
use crate::log_specification::verif_harness::any_level;
use log::Level;
use verif_support as vs;

// cells: 0 = stderr duplicates, 1 = stdout duplicates
fn fmt_err(_w: &mut dyn std::io::Write, _now: &mut DeferredNow, _r: &Record) -> std::io::Result<()> {
    vs::cell_inc(0);
    Ok(())
}
fn fmt_out(_w: &mut dyn std::io::Write, _now: &mut DeferredNow, _r: &Record) -> std::io::Result<()> {
    vs::cell_inc(1);
    Ok(())
}
// stand-in for util::write_buffered (thread-local buffer + stdout/stderr I/O): runs the format
// function it was given once, which identifies the stream (marker formats above)
fn rec_write_buffered(f: FormatFunction, now: &mut DeferredNow, r: &Record, _w: &mut dyn std::io::Write) -> Result<(), std::io::Error> {
    let mut sink: Vec<u8> = Vec::new();
    f(&mut sink, now, r)
}
fn any_dup() -> Duplicate {
    let x: u8 = kani::any();
    kani::assume(x <= 6);
    Duplicate::from(x)
}
// reference, from the documentation of Duplicate: rank of the least severe level duplicated
fn dup_rank(d: Duplicate) -> u8 {
    match d {
        Duplicate::None => 0,
        Duplicate::Error => 1,
        Duplicate::Warn => 2,
        Duplicate::Info => 3,
        Duplicate::Debug => 4,
        Duplicate::Trace => 5,
        Duplicate::All => 6,
    }
}
fn lrank(l: Level) -> u8 {
    match l {
        Level::Error => 1,
        Level::Warn => 2,
        Level::Info => 3,
        Level::Debug => 4,
        Level::Trace => 5,
    }
}

// @verif prop=C13 tier=quick timeout=600 bounds=all-7x7-Duplicate-settings,all-5-levels,before-and-after-adapt_duplication_to_*
// MultiWriter::write duplicates a record to stderr / stdout exactly when its level is at or above the configured duplication level, initially and after run-time adaptation, independently for the two streams.
#[kani::proof]
#[kani::unwind(4)]
#[kani::stub(verif_support::reexp::catch_unwind, verif_support::stub_cu)]
#[kani::stub(crate::util::write_buffered, rec_write_buffered)]
fn c13_duplication() {
    vs::link_all();
    let d_err = any_dup();
    let d_out = any_dup();
    let mw = MultiWriter::new(d_err, d_out, false, fmt_err, fmt_out, None, None);
    let level = any_level();
    let mut now = DeferredNow::new();
    let r = log::Record::builder().level(level).target("t").args(format_args!("m")).build();
    mw.write(&mut now, &r).ok();
    assert!(vs::cell_get(0) == if lrank(level) <= dup_rank(d_err) { 1 } else { 0 });
    assert!(vs::cell_get(1) == if lrank(level) <= dup_rank(d_out) { 1 } else { 0 });
    // run-time adaptation
    let d_err2 = any_dup();
    let d_out2 = any_dup();
    mw.adapt_duplication_to_stderr(d_err2);
    mw.adapt_duplication_to_stdout(d_out2);
    vs::cell_set(0, 0);
    vs::cell_set(1, 0);
    let level2 = any_level();
    let r2 = log::Record::builder().level(level2).target("t").args(format_args!("m")).build();
    mw.write(&mut now, &r2).ok();
    assert!(vs::cell_get(0) == if lrank(level2) <= dup_rank(d_err2) { 1 } else { 0 });
    assert!(vs::cell_get(1) == if lrank(level2) <= dup_rank(d_out2) { 1 } else { 0 });
    kani::cover!(dup_rank(d_err) == 1 && level == Level::Warn, "warn not duplicated at Duplicate::Error");
    kani::cover!(dup_rank(d_err2) == 6 && level2 == Level::Trace, "trace duplicated at Duplicate::All");
    kani::cover!(dup_rank(d_out) == 0 && dup_rank(d_out2) == 3 && level2 == Level::Info, "adapted from None to Info");
    std::mem::forget(mw);
}

// ------------------------------------------------------------------------------------------------
// forwarding to the configured "other" writer: write / flush / shutdown / max_log_level
struct CountW;
impl LogWriter for CountW {
    fn write(&self, _now: &mut DeferredNow, _r: &Record) -> std::io::Result<()> {
        vs::cell_inc(2);
        Ok(())
    }
    fn flush(&self) -> std::io::Result<()> {
        vs::cell_inc(3);
        Ok(())
    }
    fn max_log_level(&self) -> log::LevelFilter {
        log::LevelFilter::Warn
    }
    fn shutdown(&self) {
        vs::cell_inc(4);
    }
}
fn cut_flw_write(_w: &FileLogWriter, _now: &mut DeferredNow, _r: &Record) -> std::io::Result<()> {
    unreachable!("VERIF-CUT FileLogWriter::write (no file writer configured)")
}
fn cut_flw_flush(_w: &FileLogWriter) -> std::io::Result<()> {
    unreachable!("VERIF-CUT FileLogWriter::flush (no file writer configured)")
}
fn cut_flw_shutdown(_w: &FileLogWriter) {
    unreachable!("VERIF-CUT FileLogWriter::shutdown (no file writer configured)")
}
// @verif prop=C04,C13 tier=quick timeout=600 bounds=MultiWriter(other-writer-only,no-duplication),all-5-levels
// MultiWriter forwards every record exactly once to its configured writer, and flush() / shutdown() reach that writer exactly once each (so that LoggerHandle::flush / ::shutdown / drop leave nothing behind in it); max_log_level is the writer's.
#[kani::proof]
#[kani::unwind(4)]
#[kani::stub(verif_support::reexp::catch_unwind, verif_support::stub_cu)]
#[kani::stub(crate::util::write_buffered, rec_write_buffered)]
#[kani::stub(<crate::writers::FileLogWriter as crate::writers::LogWriter>::write, cut_flw_write)]
#[kani::stub(<crate::writers::FileLogWriter as crate::writers::LogWriter>::flush, cut_flw_flush)]
#[kani::stub(<crate::writers::FileLogWriter as crate::writers::LogWriter>::shutdown, cut_flw_shutdown)]
fn c04_multiwriter_forwarding() {
    vs::link_all();
    let mw = MultiWriter::new(Duplicate::None, Duplicate::None, false, fmt_err, fmt_out, None, Some(Box::new(CountW)));
    let level = any_level();
    let mut now = DeferredNow::new();
    let r = log::Record::builder().level(level).target("t").args(format_args!("m")).build();
    let w = mw.write(&mut now, &r);
    std::mem::forget(w);
    assert!(vs::cell_get(2) == 1 && vs::cell_get(0) == 0 && vs::cell_get(1) == 0);
    let f = LogWriter::flush(&mw);
    std::mem::forget(f);
    assert!(vs::cell_get(3) == 1);
    LogWriter::shutdown(&mw);
    assert!(vs::cell_get(4) == 1);
    assert!(mw.max_log_level() == log::LevelFilter::Warn);
    kani::cover!(level == Level::Trace, "trace record");
    std::mem::forget(mw);
}
