// Harnesses that are children of `writers::file_log_writer::builder`.
use super::*;
use std::os::unix::ffi::OsStrExt;
use verif_support as vs;

fn bytes_are(p: &Path, want: &[u8]) -> bool {
    let b = p.as_os_str().as_bytes();
    if b.len() != want.len() {
        return false;
    }
    let mut i = 0;
    while i < want.len() {
        if b[i] != want[i] {
            return false;
        }
        i += 1;
    }
    true
}
// Environment (POSIX facts): the empty path names nothing (ENOENT for metadata / read_dir);
// "." and "d" are existing directories; create_dir_all succeeds (also for the empty path, as the
// real one does). cell 0 = metadata queries for the empty path, cell 1 = other metadata queries.
fn st_create_dir_all<P: AsRef<Path>>(_p: P) -> std::io::Result<()> {
    Ok(())
}
fn st_metadata<P: AsRef<Path>>(p: P) -> std::io::Result<std::fs::Metadata> {
    if p.as_ref().as_os_str().is_empty() {
        vs::cell_inc(0);
        Err(std::io::Error::from_raw_os_error(2))
    } else {
        vs::cell_inc(1);
        Ok(vs::zeroed_metadata())
    }
}
fn st_md_is_dir(_m: &std::fs::Metadata) -> bool {
    true
}
fn st_path_is_dir(_p: &Path) -> bool {
    false // the path a FileSpec is derived from is not a directory
}
fn derived_case(path: &'static str, same_file_1: &[u8], same_file_2: &[u8], rotate: bool) {
    vs::link_all();
    let r = FileSpec::try_from(path);
    let fs = match r {
        Ok(fs) => fs,
        Err(e) => {
            std::mem::forget(e);
            assert!(false, "try_from rejected a plain file path");
            unreachable!()
        }
    };
    // the specification denotes exactly that file
    let p = fs.as_pathbuf(None);
    assert!(bytes_are(&p, same_file_1) || bytes_are(&p, same_file_2));
    // ... and a file writer can be built from it
    let mut b = FileLogWriter::builder(fs);
    if rotate {
        b = b.rotate(crate::Criterion::Size(10), crate::Naming::Numbers, crate::Cleanup::Never);
    }
    let st = b.try_build_state();
    let ok = st.is_ok();
    std::mem::forget(st);
    assert!(ok);
    // the directory the writer works in is never the empty path (read_dir / metadata of "" fail)
    assert!(!b.file_spec.get_directory().as_os_str().is_empty());
    assert!(vs::cell_get(0) == 0);
    kani::cover!(ok, "state built");
    std::mem::forget(p);
    std::mem::forget(b);
}
macro_rules! derived_instance {
    ($name:ident, $path:expr, $a:expr, $b:expr, $rot:expr) => {
        #[kani::proof]
        #[kani::unwind(12)]
        #[kani::stub(verif_support::reexp::catch_unwind, verif_support::stub_cu)]
        #[kani::stub(crate::parameters::file_spec::TimestampCfg::get_timestamp, crate::parameters::file_spec::verif_harness::cut_get_timestamp)]
        #[kani::stub(std::fs::create_dir_all, st_create_dir_all)]
        #[kani::stub(std::fs::metadata, st_metadata)]
        #[kani::stub(std::fs::Metadata::is_dir, st_md_is_dir)]
        #[kani::stub(std::path::Path::is_dir, st_path_is_dir)]
        fn $name() {
            derived_case($path, $a, $b, $rot);
        }
    };
}
// @verif prop=C16 tier=quick timeout=600 replay=try_from_bare_name bounds=path"n.l"(relative,-no-directory)
// A file specification derived from a bare file name (relative path without directory) denotes that file in the current directory and a file writer can be built from it (the directory it works in is not the empty path, for which metadata / read_dir fail).
derived_instance!(c16_try_from_bare_name, "n.l", b"n.l", b"./n.l", false);
// @verif prop=C16 tier=quick timeout=600 bounds=path"d/n.l"(nested)
// ... derived from a path with directory: exactly that path.
derived_instance!(c16_try_from_nested, "d/n.l", b"d/n.l", b"d/n.l", true);
// @verif prop=C16 tier=thorough timeout=600 bounds=path"n"(no-extension),path".n"(dot-file)
// ... without extension.
derived_instance!(c16_try_from_no_extension, "n", b"n", b"./n", false);
// @verif prop=C16 tier=probe timeout=600 bounds=path"d/n."(name-ending-in-a-dot:-present-but-empty-suffix)
// BUDGET GATE: 201 checks undetermined after 285 s (Kani reports failure without a failed check); the empty-suffix clause is decided on as_pathbuf directly (c16_as_pathbuf_empty_suffix). Not registered.
// ... derived from a path whose file name ends in a dot (an empty suffix is still a suffix): exactly that path, dot included - so that naming and the listing (which expects the empty extension) agree.
derived_instance!(c16_try_from_trailing_dot, "d/n.", b"d/n.", b"d/n.", true);
