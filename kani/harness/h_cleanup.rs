// Harnesses that are children of `writers::file_log_writer::state::list_and_cleanup`.
use super::*;
use crate::writers::file_log_writer::verif_harness::infix_filter_numbers;
use std::os::unix::ffi::OsStrExt;
use verif_support as vs;

// Listing stub (contract of list_of_log_and_compressed_files: the family's rotated files, newest
// first): cell 0 holds the number of files; names are d/b_r0000<9-i>.l for position i, so position 0
// carries the highest number.
const NAMES: [&str; 5] = ["d/b_r00009.l", "d/b_r00008.l", "d/b_r00007.l", "d/b_r00006.l", "d/b_r00005.l"];
fn stub_listing(_fs: &FileSpec, _f: &InfixFilter) -> Vec<PathBuf> {
    let n = vs::cell_get(0) as usize;
    let mut v = Vec::with_capacity(5);
    let mut i = 0;
    while i < 5 {
        if i < n {
            v.push(PathBuf::from(NAMES[i]));
        }
        i += 1;
    }
    v
}
// remove_file stub: records the position of the removed file in the event log; the call number
// held in cell 1 fails with EIO when it equals cell 2 (fault injection; 0 = no fault).
fn stub_remove_file<P: AsRef<std::path::Path>>(p: P) -> std::io::Result<()> {
    let b = p.as_ref().as_os_str().as_bytes();
    let call = vs::cell_inc(1);
    if call == vs::cell_get(2) {
        return Err(std::io::Error::from_raw_os_error(5));
    }
    // position = 9 - digit at byte 9 of "d/b_r0000X.l"
    let pos = if b.len() == 12 { (b'9' - b[9]) as u32 } else { 99 };
    vs::ev_push(pos);
    Ok(())
}

// The number of files is concrete per instance (a symbolic Vec length made CBMC exceed 12 GB);
// the limit k, the naming kind and the fault position are symbolic.
fn keep_log_files_case(n: u64, with_fault: bool) {
    vs::link_all();
    vs::cell_set(0, n);
    let k: usize = kani::any();
    kani::assume(k <= 6);
    let writes_direct: bool = kani::any();
    let fault_at: u64 = if with_fault { kani::any() } else { 0 };
    kani::assume(fault_at <= 3);
    vs::cell_set(2, fault_at);
    let spec = FileSpec::default().directory("d").basename("b").suffix("l").suppress_timestamp();
    let r = remove_or_compress_too_old_logfiles_impl(&Cleanup::KeepLogFiles(k), &spec, &infix_filter_numbers(), writes_direct);
    // reference
    let keep = if writes_direct && k == 0 { 1 } else { k };
    let to_remove = if (n as usize) > keep { n as usize - keep } else { 0 };
    let faulted = fault_at != 0 && (fault_at as usize) <= to_remove;
    assert!(r.is_err() == faulted);
    let removed = vs::ev_len();
    if faulted {
        assert!(removed == fault_at as usize - 1);
    } else {
        assert!(removed == to_remove);
    }
    let mut i = 0;
    while i < removed {
        // removed positions are keep, keep+1, ... in this order: exactly the oldest files
        assert!(vs::ev_get(i) as usize == keep + i);
        i += 1;
    }
    kani::cover!(to_remove == 0, "nothing to remove");
    kani::cover!(n == 0 || (writes_direct && k == 0 && to_remove == n as usize - 1), "direct naming: the newest (current) file is spared although k = 0");
    kani::cover!(!with_fault || (faulted && fault_at == 2), "second removal fails");
    kani::cover!(n < 4 || (!faulted && to_remove == 3), "three files removed");
    std::mem::forget(spec);
    std::mem::forget(r);
}
macro_rules! klf_instance {
    ($name:ident, $n:expr, $fault:expr) => {
        #[kani::proof]
        #[kani::unwind(14)]
        #[kani::stub(verif_support::reexp::catch_unwind, verif_support::stub_cu)]
        #[kani::stub(crate::parameters::file_spec::TimestampCfg::get_timestamp, crate::parameters::file_spec::verif_harness::cut_get_timestamp)]
        #[kani::stub(list_of_log_and_compressed_files, stub_listing)]
        #[kani::stub(std::fs::remove_file, stub_remove_file)]
        fn $name() {
            keep_log_files_case($n, $fault);
        }
    };
}
// @verif prop=C07 tier=quick timeout=600 bounds=0-rotated-files,KeepLogFiles(k<=6),writes_direct-symbolic
// remove_or_compress_too_old_logfiles_impl with KeepLogFiles(k) on an empty listing: nothing removed.
klf_instance!(c07_keep_log_files_n0, 0, false);
// @verif prop=C07 tier=quick timeout=600 bounds=1-rotated-file,KeepLogFiles(k<=6),writes_direct-symbolic
// ... removes exactly the files beyond the k newest (never the newest one when the naming writes directly into a numbered file), in list order. 1 file.
klf_instance!(c07_keep_log_files_n1, 1, false);
// @verif prop=C07 tier=quick timeout=600 bounds=3-rotated-files,KeepLogFiles(k<=6),writes_direct-symbolic
// ... 3 files.
klf_instance!(c07_keep_log_files_n3, 3, false);
// @verif prop=C07 tier=quick timeout=600 bounds=5-rotated-files,KeepLogFiles(k<=6),writes_direct-symbolic
// ... 5 files.
klf_instance!(c07_keep_log_files_n5, 5, false);
// @verif prop=C07,C19 tier=quick timeout=600 bounds=4-rotated-files,KeepLogFiles(k<=6),single-remove_file-fault-at-call-1..3
// A failing removal ends the cleanup with Err after the earlier removals (nothing else touched), without panic. 4 files.
klf_instance!(c07_keep_log_files_n4_fault, 4, true);

// @verif prop=C07 tier=quick timeout=300 bounds=Cleanup::Never
// Cleanup::Never touches nothing (no listing, no removal).
#[kani::proof]
#[kani::unwind(14)]
#[kani::stub(verif_support::reexp::catch_unwind, verif_support::stub_cu)]
#[kani::stub(crate::parameters::file_spec::TimestampCfg::get_timestamp, crate::parameters::file_spec::verif_harness::cut_get_timestamp)]
#[kani::stub(list_of_log_and_compressed_files, stub_listing)]
#[kani::stub(std::fs::remove_file, stub_remove_file)]
fn c07_never() {
    vs::link_all();
    vs::cell_set(0, 5);
    let writes_direct: bool = kani::any();
    let spec = FileSpec::default().directory("d").basename("b").suffix("l").suppress_timestamp();
    let r = remove_or_compress_too_old_logfiles_impl(&Cleanup::Never, &spec, &infix_filter_numbers(), writes_direct);
    assert!(r.is_ok());
    assert!(vs::ev_len() == 0 && vs::cell_get(1) == 0);
    kani::cover!(writes_direct, "direct naming");
    std::mem::forget(spec);
}


// ------------------------------------------------------------------------------------------------
// C11: a cleanup killed after j of its removals. The directory then lacks the j files the killed
// run removed first (list positions keep .. keep+j-1, i.e. NOT the oldest ones: removal goes from
// newer to older); the cleanup of the restarted logger must still end with exactly the newest
// `keep` files. The listing stub serves the survivors in list order.
fn stub_listing_after_kill(_fs: &FileSpec, _f: &InfixFilter) -> Vec<PathBuf> {
    // cell 0 = n (files before the killed cleanup), cell 3 = keep, cell 4 = j (removals that happened)
    let n = vs::cell_get(0) as usize;
    let keep = vs::cell_get(3) as usize;
    let j = vs::cell_get(4) as usize;
    let mut v = Vec::with_capacity(5);
    let mut i = 0;
    while i < 5 {
        if i < n && !(i >= keep && i < keep + j) {
            v.push(PathBuf::from(NAMES[i]));
        }
        i += 1;
    }
    v
}
fn cleanup_resumes_case(j: u64) {
    vs::link_all();
    vs::cell_set(0, 5);
    vs::cell_set(3, 2);
    vs::cell_set(4, j);
    vs::cell_set(2, 0);
    let writes_direct: bool = kani::any();
    let spec = FileSpec::default().directory("d").basename("b").suffix("l").suppress_timestamp();
    let r = remove_or_compress_too_old_logfiles_impl(&Cleanup::KeepLogFiles(2), &spec, &infix_filter_numbers(), writes_direct);
    assert!(r.is_ok());
    // positions 2,3,4 were beyond the limit; j of them (2.., newest first) are already gone
    assert!(vs::ev_len() == 3 - j as usize);
    let mut i = 0;
    while i < vs::ev_len() {
        assert!(vs::ev_get(i) as u64 == 2 + j + i as u64);
        i += 1;
    }
    kani::cover!(writes_direct, "direct naming");
    std::mem::forget(spec);
    std::mem::forget(r);
}
macro_rules! resume_instance {
    ($name:ident, $j:expr) => {
        #[kani::proof]
        #[kani::unwind(14)]
        #[kani::stub(verif_support::reexp::catch_unwind, verif_support::stub_cu)]
        #[kani::stub(crate::parameters::file_spec::TimestampCfg::get_timestamp, crate::parameters::file_spec::verif_harness::cut_get_timestamp)]
        #[kani::stub(list_of_log_and_compressed_files, stub_listing_after_kill)]
        #[kani::stub(std::fs::remove_file, stub_remove_file)]
        fn $name() {
            cleanup_resumes_case($j);
        }
    };
}
// @verif prop=C11,C07 tier=quick timeout=600 bounds=5-rotated-files,KeepLogFiles(2),cleanup-killed-after-1-removal
// Cleanup killed after its first removal, then run again by the restarted logger: it removes exactly the files that are still beyond the limit and ends with the newest 2 files - a half-done cleanup converges.
resume_instance!(c11_cleanup_resumes_after_1, 1);
// @verif prop=C11,C07 tier=quick timeout=600 bounds=5-rotated-files,KeepLogFiles(2),cleanup-killed-after-2-removals
// ... killed after two removals.
resume_instance!(c11_cleanup_resumes_after_2, 2);
