// Harnesses that are children of `writers::file_log_writer::state` (they see its private items).
use super::*;
use chrono::{FixedOffset, NaiveDate};
use verif_support as vs;

include!(concat!(env!("CARGO_MANIFEST_DIR"), "/verif_seed.rs"));

// ------------------------------------------------------------------------------------------------
// E-clock stub for chrono::Local::now: next instant of the harness-supplied sequence.
fn dt_of(i: &vs::Instant) -> DateTime<Local> {
    let fo = FixedOffset::east_opt(i.off).unwrap();
    let ndt = NaiveDate::from_ymd_opt(i.y, i.mo, i.d).unwrap().and_hms_opt(i.h, i.mi, i.s).unwrap();
    // `ndt` is the local wall-clock reading; DateTime stores UTC + offset
    DateTime::from_naive_utc_and_offset(ndt - fo, fo)
}
fn stub_now() -> DateTime<Local> {
    dt_of(&vs::clock_next())
}
// Offsets: UTC, +1h, -9:30, +12:45, +5:45, -3h (seconds east)
const OFFSETS: [i32; 6] = [0, 3600, -34200, 45900, 20700, -10800];
fn any_offset() -> i32 {
    let k: usize = kani::any();
    kani::assume(k < OFFSETS.len());
    OFFSETS[k]
}
// A valid civil instant inside the seed-selected 4-year window (always holds a leap year and
// three year boundaries).
fn any_instant(off: i32) -> vs::Instant {
    let y: i32 = kani::any();
    let mo: u32 = kani::any();
    let d: u32 = kani::any();
    let h: u32 = kani::any();
    let mi: u32 = kani::any();
    let s: u32 = kani::any();
    kani::assume(y >= VERIF_YEAR0 && y < VERIF_YEAR0 + 4);
    kani::assume(mo >= 1 && mo <= 12 && d >= 1 && d <= 31 && h < 24 && mi < 60 && s < 60);
    kani::assume(NaiveDate::from_ymd_opt(y, mo, d).is_some());
    vs::Instant { y, mo, d, h, mi, s, off }
}
// Reference, written from the property text: the local clock reading truncated to the period.
// level 0 = day, 1 = hour, 2 = minute, 3 = second.
fn same_period(a: &vs::Instant, b: &vs::Instant, level: u8) -> bool {
    let mut same = (a.y, a.mo, a.d) == (b.y, b.mo, b.d);
    if level >= 1 {
        same = same && a.h == b.h;
    }
    if level >= 2 {
        same = same && a.mi == b.mi;
    }
    if level >= 3 {
        same = same && a.s == b.s;
    }
    same
}

fn c09_kernel(age: Age, level: u8) {
    vs::cell_set(0, 0);
    let off = any_offset();
    let created = any_instant(off);
    let now = any_instant(off);
    // monotone local clock (stated assumption; DST jumps are outside the claim)
    kani::assume(vs::instant_le(&created, &now));
    vs::clock_push(now);
    let created_at = dt_of(&created);
    let r = RollState::age_rotation_necessary(age, &created_at);
    let expect = !same_period(&created, &now, level);
    assert!(r == expect);
    kani::cover!(r && created.y != now.y, "rotation across a year boundary");
    kani::cover!(r && created.y == now.y && created.mo != now.mo && created.d == now.d, "same day number, other month");
    kani::cover!(!r, "no rotation");
    kani::cover!(level == 3 || (!r && created.s != now.s), "no rotation although instants differ (n/a for seconds)");
    kani::cover!(level < 3 || r || created.s == now.s, "second level reached");
    kani::cover!(r && created.mo == 2 && created.d == 29, "leap day");
    kani::cover!(off != 0 && created_at.naive_utc().date() != created_at.naive_local().date(), "UTC date differs from local date");
}

// @verif prop=C09 tier=quick timeout=300 bounds=4-year-window(seed),6-offsets,now>=created
// Age::Day: real kernel == (local day index of created_at != local day index of now), clock stubbed.
#[kani::proof]
#[kani::stub(verif_support::reexp::catch_unwind, verif_support::stub_cu)]
#[kani::stub(crate::parameters::file_spec::TimestampCfg::get_timestamp, crate::parameters::file_spec::verif_harness::cut_get_timestamp)]
#[kani::stub(chrono::Local::now, stub_now)]
fn c09_kernel_day() {
    c09_kernel(Age::Day, 0);
}
// @verif prop=C09 tier=quick timeout=300 bounds=4-year-window(seed),6-offsets,now>=created
// Age::Hour: real kernel == (local hour index differs).
#[kani::proof]
#[kani::stub(verif_support::reexp::catch_unwind, verif_support::stub_cu)]
#[kani::stub(crate::parameters::file_spec::TimestampCfg::get_timestamp, crate::parameters::file_spec::verif_harness::cut_get_timestamp)]
#[kani::stub(chrono::Local::now, stub_now)]
fn c09_kernel_hour() {
    c09_kernel(Age::Hour, 1);
}
// @verif prop=C09 tier=quick timeout=300 bounds=4-year-window(seed),6-offsets,now>=created
// Age::Minute: real kernel == (local minute index differs).
#[kani::proof]
#[kani::stub(verif_support::reexp::catch_unwind, verif_support::stub_cu)]
#[kani::stub(crate::parameters::file_spec::TimestampCfg::get_timestamp, crate::parameters::file_spec::verif_harness::cut_get_timestamp)]
#[kani::stub(chrono::Local::now, stub_now)]
fn c09_kernel_minute() {
    c09_kernel(Age::Minute, 2);
}
// @verif prop=C09 tier=quick timeout=300 bounds=4-year-window(seed),6-offsets,now>=created
// Age::Second: real kernel == (local second differs).
#[kani::proof]
#[kani::stub(verif_support::reexp::catch_unwind, verif_support::stub_cu)]
#[kani::stub(crate::parameters::file_spec::TimestampCfg::get_timestamp, crate::parameters::file_spec::verif_harness::cut_get_timestamp)]
#[kani::stub(chrono::Local::now, stub_now)]
fn c09_kernel_second() {
    c09_kernel(Age::Second, 3);
}

// ------------------------------------------------------------------------------------------------
// @verif prop=C08,C01 tier=quick timeout=120 bounds=all-u64
// For all u64 max/cur: rotation_necessary() of a Size roll state == (cur > max); AgeOrSize with the age part inactive (same period) decides identically.
#[kani::proof]
#[kani::stub(verif_support::reexp::catch_unwind, verif_support::stub_cu)]
#[kani::stub(crate::parameters::file_spec::TimestampCfg::get_timestamp, crate::parameters::file_spec::verif_harness::cut_get_timestamp)]
#[kani::stub(chrono::Local::now, stub_now)]
fn c08_size_kernel() {
    vs::cell_set(0, 0);
    let max_size: u64 = kani::any();
    let current_size: u64 = kani::any();
    let rs = RollState::Size { max_size, current_size };
    assert!(rs.rotation_necessary() == (current_size > max_size));
    assert!(RollState::size_rotation_necessary(max_size, current_size) == (current_size > max_size));
    // age part inactive: created_at and now in the same second
    let i = vs::Instant { y: 2024, mo: 2, d: 29, h: 23, mi: 59, s: 59, off: 3600 };
    vs::clock_push(i);
    let rs2 = RollState::AgeOrSize { age: Age::Second, created_at: dt_of(&i), max_size, current_size };
    assert!(rs2.rotation_necessary() == (current_size > max_size));
    kani::cover!(current_size == max_size, "at limit");
    kani::cover!(max_size < u64::MAX && current_size == max_size + 1, "just above");
    kani::cover!(max_size == 0 && current_size == 0, "N = 0, empty file");
}

// @verif prop=C08 tier=quick timeout=120 bounds=cur+add<=u64::MAX
// increase_size adds exactly `add` for Size and AgeOrSize (nothing for Age); reset_size_and_date sets 0. No overflow panic for sums within u64.
#[kani::proof]
#[kani::stub(verif_support::reexp::catch_unwind, verif_support::stub_cu)]
#[kani::stub(crate::parameters::file_spec::TimestampCfg::get_timestamp, crate::parameters::file_spec::verif_harness::cut_get_timestamp)]
#[kani::stub(chrono::Local::now, stub_now)]
#[kani::stub(get_creation_timestamp, stub_creation_ts)]
fn c08_size_accounting() {
    vs::cell_set(0, 0);
    let max_size: u64 = kani::any();
    let cur: u64 = kani::any();
    let add: u64 = kani::any();
    kani::assume(cur <= u64::MAX - add);
    let mut rs = RollState::Size { max_size, current_size: cur };
    rs.increase_size(add);
    match rs {
        RollState::Size { max_size: m, current_size: c } => assert!(m == max_size && c == cur + add),
        _ => unreachable!(),
    }
    rs.reset_size_and_date(Path::new("x"));
    match rs {
        RollState::Size { max_size: m, current_size: c } => assert!(m == max_size && c == 0),
        _ => unreachable!(),
    }
    let i = vs::Instant { y: 2024, mo: 2, d: 29, h: 23, mi: 59, s: 59, off: 0 };
    let mut rs2 = RollState::AgeOrSize { age: Age::Day, created_at: dt_of(&i), max_size, current_size: cur };
    rs2.increase_size(add);
    match rs2 {
        RollState::AgeOrSize { current_size: c, max_size: m, .. } => assert!(m == max_size && c == cur + add),
        _ => unreachable!(),
    }
    // the start time of the new file is taken over whatever the sizes are (over the limit or not):
    // the birth-time model answers with the next clock value, a later second
    let i2 = vs::Instant { y: 2024, mo: 3, d: 1, h: 0, mi: 0, s: 7, off: 0 };
    vs::clock_push(i2);
    rs2.reset_size_and_date(Path::new("x"));
    match rs2 {
        RollState::AgeOrSize { current_size: c, max_size: m, created_at, .. } => {
            use chrono::{Datelike, Timelike};
            assert!(m == max_size && c == 0);
            assert!(created_at.second() == 7 && created_at.day() == 1 && created_at.month() == 3);
        }
        _ => unreachable!(),
    }
    kani::cover!(add == 0, "empty record");
    kani::cover!(cur > max_size && add > 0, "write into an over-limit file (after failed rotation)");
}
// model of get_creation_timestamp: birth instant of the file = next clock value
fn stub_creation_ts(p: &Path) -> DateTime<Local> {
    use std::os::unix::ffi::OsStrExt;
    // which file's birth time is asked for: first byte of the path ('c' = the path mounted before
    // the rotation, 'n' = the newly opened one in the step harnesses)
    let b = p.as_os_str().as_bytes();
    vs::cell_set(10, if b.is_empty() { 0 } else { b[0] as u64 });
    stub_now()
}

// ------------------------------------------------------------------------------------------------
// RollState::new: start state of the criterion. std::fs::metadata is replaced by a model that
// yields a Metadata whose len() is the symbolic size of the pre-existing file (cell 8), or ENOENT
// (cell 9 = 1).
fn stub_metadata<P: AsRef<Path>>(_p: P) -> std::io::Result<std::fs::Metadata> {
    vs::cell_inc(10);
    if vs::cell_get(9) == 1 {
        return Err(std::io::Error::from_raw_os_error(2));
    }
    Ok(vs::zeroed_metadata())
}
fn stub_metadata_len(_m: &std::fs::Metadata) -> u64 {
    vs::cell_get(8)
}
fn any_age() -> Age {
    let a: u8 = kani::any();
    kani::assume(a < 4);
    match a {
        0 => Age::Day,
        1 => Age::Hour,
        2 => Age::Minute,
        _ => Age::Second,
    }
}

// @verif prop=C08,C06 tier=quick timeout=600 bounds=criterion-in{Size(N),AgeOrSize(age,N)},N-and-existing-file-size-all-u64,append-on/off
// RollState::new counts the content found at start when appending - for Size and for AgeOrSize alike - and starts at 0 otherwise, so that the first write into an over-limit appended file rotates.
#[kani::proof]
#[kani::unwind(6)]
#[kani::stub(verif_support::reexp::catch_unwind, verif_support::stub_cu)]
#[kani::stub(crate::parameters::file_spec::TimestampCfg::get_timestamp, crate::parameters::file_spec::verif_harness::cut_get_timestamp)]
#[kani::stub(chrono::Local::now, stub_now)]
#[kani::stub(get_creation_timestamp, stub_creation_ts)]
#[kani::stub(std::fs::metadata, stub_metadata)]
#[kani::stub(std::fs::Metadata::len, stub_metadata_len)]
fn c08_rollstate_new_seeding() {
    vs::link_all();
    let n: u64 = kani::any();
    let existing: u64 = kani::any();
    vs::cell_set(8, existing);
    vs::cell_set(9, 0);
    let append: bool = kani::any();
    let with_age: bool = kani::any();
    let age = any_age();
    let i = vs::Instant { y: 2024, mo: 2, d: 29, h: 23, mi: 59, s: 59, off: 0 };
    vs::clock_push(i);
    vs::clock_push(i);
    let criterion = if with_age { Criterion::AgeOrSize(age, n) } else { Criterion::Size(n) };
    let r = RollState::new(criterion, append, Path::new("d/b_rCURRENT.l"));
    let want = if append { existing } else { 0 };
    match r {
        Ok(RollState::Size { max_size, current_size }) => {
            assert!(!with_age && max_size == n && current_size == want);
            // consequence: the very next write rotates iff the appended file is already over the limit
            assert!(RollState::Size { max_size, current_size }.rotation_necessary() == (want > n));
        }
        Ok(RollState::AgeOrSize { max_size, current_size, .. }) => {
            assert!(with_age && max_size == n && current_size == want);
        }
        _ => assert!(false),
    }
    kani::cover!(append && with_age && existing > n, "append to an over-limit file with AgeOrSize");
    kani::cover!(!append && existing > 0, "no append: earlier content is not counted");
}

// ================================================================================================
// State step harnesses ("glue level", DESIGN.md 3.5): one call of State::write_buffer /
// mount_next_linewriter_if_necessary / flush / shutdown on a directly constructed Active state.
// The leaves the step calls (index_for_rcurrent, open_log_file, cleanup) are replaced by recording
// contract stubs - each leaf is decided against that contract in its own harness - so that the
// step's own logic is what CBMC executes: the rotation decision, the order rename -> open ->
// reset -> cleanup -> write, size accounting, which writer receives the record, error handling.
//
// Event log (vs::ev_*):  0x300 | id = writer `id` dropped (unmounted), 1 = rename/close step (index_for_rcurrent), 2 = open_log_file,
//   3 = cleanup, 0x100 | id<<4 | len = write of `len` bytes to writer `id`, 0x200 | id = flush of
//   writer `id`, 5 = error reported through eprint_err.
// Cells: 0 = fault selector (1 = rename step fails, 2 = open fails, 3 = cleanup fails, 4 = write fails),
//        1 = next writer id handed out by the open stub.
use crate::writers::file_log_writer::verif_harness::mk_config;
use crate::{FileSpec, WriteMode};

struct RecW {
    id: u32,
}
impl Write for RecW {
    fn write(&mut self, b: &[u8]) -> std::io::Result<usize> {
        if vs::cell_get(0) == 4 {
            return Err(std::io::Error::from_raw_os_error(28)); // ENOSPC
        }
        vs::ev_push(0x100 | self.id << 4 | (b.len() as u32 & 0xf));
        Ok(b.len())
    }
    fn flush(&mut self) -> std::io::Result<()> {
        vs::ev_push(0x200 | self.id);
        Ok(())
    }
}
// dropping a writer = it was unmounted (replaced by the newly opened one)
impl Drop for RecW {
    fn drop(&mut self) {
        vs::ev_push(0x300 | self.id);
    }
}
fn stub_index_for_rcurrent(_c: &FileLogWriterConfig, o_idx: Option<u32>, rotate: bool) -> Result<u32, std::io::Error> {
    vs::ev_push(1);
    if vs::cell_get(0) == 1 {
        return Err(std::io::Error::from_raw_os_error(13));
    }
    // contract (decided in c06_index_for_rcurrent): remembered index + 1 once the current file was renamed
    let idx = o_idx.unwrap_or(0);
    Ok(if rotate { idx + 1 } else { idx })
}
fn stub_open_log_file(_c: &FileLogWriterConfig, _o_infix: Option<&str>) -> Result<(Box<dyn Write + Send>, PathBuf), std::io::Error> {
    vs::ev_push(2);
    if vs::cell_get(0) == 2 {
        return Err(std::io::Error::from_raw_os_error(13));
    }
    let id = vs::cell_inc(1) as u32;
    Ok((Box::new(RecW { id }), PathBuf::from("n")))
}
fn stub_cleanup(
    _h: Option<&list_and_cleanup::CleanupThreadHandle>,
    _c: &Cleanup,
    _f: &FileSpec,
    _i: &InfixFilter,
    _d: bool,
) -> Result<(), std::io::Error> {
    vs::ev_push(3);
    if vs::cell_get(0) == 3 {
        return Err(std::io::Error::from_raw_os_error(5));
    }
    Ok(())
}
fn stub_eprint_err_ev(_c: ErrorCode, _m: &str, _e: &dyn std::error::Error) {
    vs::ev_push(5);
}
fn cut_ts_current(_c: &FileLogWriterConfig, _i: &str, _r: bool, _d: Option<&DateTime<Local>>, _f: &InfixFormat) -> Result<DateTime<Local>, std::io::Error> {
    unreachable!("VERIF-CUT creation_timestamp_of_currentfile in a Numbers instance")
}
fn cut_infix_from_ts(_t: &DateTime<Local>, _u: bool, _f: &InfixFormat) -> String {
    unreachable!("VERIF-CUT infix_from_timestamp in a Numbers instance")
}
// CBMC does not fold the niche-encoded discriminant of `Inner`: the `Inner::Initial` arm of
// write_buffer (initialize -> initialize_with_rotation -> thread spawn ...) is explored although the
// harness constructs `Inner::Active`. Reaching this cut is a reported failure.
fn cut_initialize(_s: &mut State) -> Result<(), std::io::Error> {
    unreachable!("VERIF-CUT State::initialize on an Active state")
}
fn cut_number_infix(_i: u32) -> String {
    unreachable!("VERIF-CUT number_infix in a NumbersRCurrent instance")
}


// States are built through the crate's own constructor and then activated by assigning `inner`
// (instead of a struct literal): a change that adds bookkeeping fields to `State` still builds, and the
// new fields start with the values the crate itself gives a fresh state.
fn active_state(cfg: FileLogWriterConfig, inner: Inner) -> State {
    let mut st = State::new(cfg, None, false);
    st.inner = inner;
    st
}
fn numbers_state(idx: u32, max_size: u64, current_size: u64) -> State {
    let cfg = mk_config(FileSpec::default().directory("d").basename("b").suffix("l").suppress_timestamp(), false, WriteMode::Direct);
    active_state(
        cfg,
        Inner::Active(
            Some(RotationState {
                naming_state: NamingState::NumbersRCurrent(idx),
                roll_state: RollState::Size { max_size, current_size },
                cleanup: Cleanup::Never,
                o_cleanup_thread_handle: None,
            }),
            Box::new(RecW { id: 0 }),
            PathBuf::from("c"),
        ),
    )
}

macro_rules! step_harness {
    ($u:literal, fn $name:ident() $body:block) => {
        #[kani::proof]
        #[kani::unwind($u)]
        #[kani::stub(verif_support::reexp::catch_unwind, verif_support::stub_cu)]
        #[kani::stub(chrono::Local::now, stub_now)]
        #[kani::stub(get_creation_timestamp, stub_creation_ts)]
        #[kani::stub(numbers::index_for_rcurrent, stub_index_for_rcurrent)]
        #[kani::stub(numbers::number_infix, cut_number_infix)]
        #[kani::stub(open_log_file, stub_open_log_file)]
        #[kani::stub(list_and_cleanup::remove_or_compress_too_old_logfiles, stub_cleanup)]
        #[kani::stub(timestamps::creation_timestamp_of_currentfile, cut_ts_current)]
        #[kani::stub(timestamps::infix_from_timestamp, cut_infix_from_ts)]
        #[kani::stub(crate::util::eprint_err, stub_eprint_err_ev)]
        #[kani::stub(State::initialize, cut_initialize)]
        #[kani::stub(crate::parameters::file_spec::TimestampCfg::get_timestamp, crate::parameters::file_spec::verif_harness::cut_get_timestamp)]
        #[kani::stub(list_and_cleanup::CleanupThreadHandle::shutdown, cut_cleanup_thread_shutdown)]
        fn $name() $body
    };
}

// The step is decided in two halves that compose along the crate's own call structure, because
// `write_buffer` consumes the Result of the rotation half with `unwrap_or_else(|e| eprint_err(..))`:
// dropping a FlexiLoggerError makes CBMC unwind the mutually recursive drop glue
// FlexiLoggerError -> io::Error -> Box<dyn Error> -> (every error type) and does not finish.
//   (A) mount_next_linewriter_if_necessary(force) called directly, result forgotten;
//   (B) write_buffer with (A) replaced by a recording stub that returns Ok(()).
fn rec_mount_next(_s: &mut State, force: bool) -> Result<(), FlexiLoggerError> {
    vs::ev_push(if force { 7 } else { 6 });
    Ok(())
}

// Faults are concrete per instance (a symbolic fault selector keeps every io::Error path alive and
// CBMC then unwinds the recursive error drop glue): 0 none, 1 rename fails, 2 open fails, 3 cleanup fails.
fn rotate_numbers_size_case(fault: u64) {
    vs::link_all();
    vs::cell_set(0, fault);
    let idx: u32 = kani::any();
    kani::assume(idx < 1000);
    let max_size: u64 = kani::any();
    let current_size: u64 = kani::any();
    let force: bool = kani::any();
    let mut state = numbers_state(idx, max_size, current_size);
    let r = state.mount_next_linewriter_if_necessary(force);
    let rotate = force || current_size > max_size;
    let ok = r.is_ok();
    std::mem::forget(r);
    if !rotate {
        assert!(ok && vs::ev_len() == 0);
    } else if fault == 1 {
        assert!(!ok && vs::ev_len() == 1 && vs::ev_get(0) == 1);
    } else if fault == 2 {
        assert!(!ok && vs::ev_len() == 2 && vs::ev_get(0) == 1 && vs::ev_get(1) == 2);
    } else {
        // rename -> open -> old writer (id 0) released, i.e. the new one is mounted -> cleanup
        assert!(vs::ev_len() == 4 && vs::ev_get(0) == 1 && vs::ev_get(1) == 2 && vs::ev_get(2) == 0x300 && vs::ev_get(3) == 3);
        assert!(ok == (fault != 3));
    }
    let new_mounted = rotate && fault != 1 && fault != 2;
    if let Inner::Active(Some(rs), _, _) = &state.inner {
        match (&rs.naming_state, &rs.roll_state) {
            (NamingState::NumbersRCurrent(i2), RollState::Size { max_size: m2, current_size: c2 }) => {
                assert!(*m2 == max_size);
                if new_mounted {
                    assert!(*i2 == idx + 1 && *c2 == 0);
                } else if rotate && fault == 2 {
                    // renamed but not re-opened: index advanced, size count kept
                    assert!(*i2 == idx + 1 && *c2 == current_size);
                } else {
                    assert!(*i2 == idx && *c2 == current_size);
                }
            }
            _ => unreachable!(),
        }
    } else {
        unreachable!();
    }
    kani::cover!(rotate && !force, "rotation by size");
    kani::cover!(force && current_size <= max_size, "explicitly triggered rotation below the limit");
    kani::cover!(!rotate && current_size == max_size, "exactly at the limit: no rotation");
    std::mem::forget(state);
}
// @verif prop=C01,C08 tier=quick timeout=900 bounds=one-rotation-step,NumbersRCurrent(idx<1000),Size{max,cur}-all-u64,force-symbolic,no-fault
// (A) mount_next_linewriter_if_necessary from an arbitrary Active state (Numbers/rCURRENT, Size): rotates iff forced or the current file already holds more than N bytes; effects in the order rename -> open -> cleanup; afterwards index+1, size count 0 and the new writer mounted; no rotation -> no effect at all.
step_harness! { 8,
fn c01_rotate_numbers_size() {
    rotate_numbers_size_case(0);
}
}
// @verif prop=C19,C01 tier=quick timeout=900 bounds=same,rename-step-fails(EACCES)
// (A) with a failing rename: Err is returned before anything else happens, the old writer stays mounted, index and size count unchanged (nothing written is lost, rotation is retried at the next write).
step_harness! { 8,
fn c19_rotate_rename_fails() {
    rotate_numbers_size_case(1);
}
}
// @verif prop=C19,C01 tier=quick timeout=900 bounds=same,open-fails-after-rename(EACCES)
// (A) with a failing open after the rename: Err, no cleanup, the old writer (now the renamed file) stays mounted so later records are not lost.
step_harness! { 8,
fn c19_rotate_open_fails() {
    rotate_numbers_size_case(2);
}
}
// @verif prop=C19,C07 tier=probe timeout=900 bounds=same,cleanup-fails(EIO)
// (A) with a failing cleanup: the rotation itself is complete (new writer mounted, size count reset), the failure is returned to the caller for reporting.
step_harness! { 8,
fn c19_rotate_cleanup_fails() {
    rotate_numbers_size_case(3);
}
}

// ------------------------------------------------------------------------------------------------
// Integrated step (session 3): the real write_buffer AND the real mount_next_linewriter_if_necessary
// in one run, followed by flush() - the two halves share the state (size count, index, mounted
// writer, any bookkeeping a change may add), so a defect that needs both (e.g. "the record that
// triggers a rotation is not flushed") is invisible to (A) and (B) alone. Leaves by contract as in
// (A). Possible since the start-time arm of FileSpec (chrono) is cut: the FlexiLoggerError that
// write_buffer consumes with unwrap_or_else(..) can then be dropped by CBMC.
fn step_integrated_case(op: u8) {
    vs::link_all();
    vs::cell_set(0, 0);
    vs::cell_set(1, 0);
    let idx: u32 = kani::any();
    kani::assume(idx < 1000);
    let max_size: u64 = kani::any();
    let current_size: u64 = kani::any();
    kani::assume(current_size < (1u64 << 63));
    let mut state = numbers_state(idx, max_size, current_size);
    let len: usize = kani::any();
    kani::assume(len <= 8);
    let buf = [b'x'; 8];
    let r = state.write_buffer(&buf[..len]);
    let ok = r.is_ok();
    std::mem::forget(r);
    assert!(ok);
    let rotate = current_size > max_size;
    // the writer that must hold the record: the one opened by the rotation (id 1), else the old one (id 0)
    let w: u32 = if rotate { 1 } else { 0 };
    let mut n = 0usize;
    if rotate {
        // rename -> open -> old writer released -> cleanup, all before the record is written
        assert!(vs::ev_len() >= 4 && vs::ev_get(0) == 1 && vs::ev_get(1) == 2 && vs::ev_get(2) == 0x300 && vs::ev_get(3) == 3);
        n = 4;
    }
    if len > 0 {
        assert!(vs::ev_len() == n + 1 && vs::ev_get(n) == (0x100 | w << 4 | len as u32));
        n += 1;
    } else {
        assert!(vs::ev_len() == n);
    }
    if let Inner::Active(Some(rs), _, _) = &state.inner {
        match (&rs.naming_state, &rs.roll_state) {
            (NamingState::NumbersRCurrent(i2), RollState::Size { max_size: m2, current_size: c2 }) => {
                assert!(*m2 == max_size);
                assert!(*i2 == if rotate { idx + 1 } else { idx });
                assert!(*c2 == if rotate { len as u64 } else { current_size + len as u64 });
            }
            _ => unreachable!(),
        }
    } else {
        unreachable!();
    }
    if op == 0 {
        // flush() after the write reaches the writer that holds the record - also when this very
        // write rotated (buffered modes: the record sits in the new writer's buffer)
        let f = state.flush();
        let fok = f.is_ok();
        std::mem::forget(f);
        assert!(fok);
        assert!(vs::ev_len() == n + 1 && vs::ev_get(n) == (0x200 | w));
    } else {
        // shutdown() flushes it as well
        state.shutdown();
        assert!(vs::ev_len() >= n + 1 && vs::ev_get(n) == (0x200 | w));
    }
    kani::cover!(rotate && len == 8, "the write rotated and wrote 8 bytes");
    kani::cover!(!rotate && len > 0, "no rotation");
    kani::cover!(rotate && len == 0, "rotation triggered by an empty record");
    std::mem::forget(state);
}
macro_rules! step_integrated_instance {
    ($name:ident, $op:expr) => {
        step_harness! { 10,
        fn $name() {
            step_integrated_case($op);
        }
        }
    };
}
// @verif prop=C01,C04,C08 tier=quick timeout=900 bounds=one-write_buffer-call-with-the-real-rotation-half,NumbersRCurrent(idx<1000),Size{max,cur}(cur<2^63),record<=8-bytes,then-flush()
// Integrated step: a write on an arbitrary Active state rotates iff the file already exceeds N, in the order rename -> open -> cleanup -> write; the record goes exactly once to the writer mounted afterwards, the size count restarts at the record's length; a flush() directly afterwards reaches that writer - also when this very write rotated.
step_integrated_instance!(c01_step_write_rotate_flush, 0);
// @verif prop=C04,C01 tier=quick timeout=900 bounds=same,then-shutdown()
// ... and so does shutdown().
step_integrated_instance!(c04_step_write_rotate_shutdown, 1);

// Integrated step with a fault (C19): the rotation inside write_buffer fails at a concrete point
// (1 rename step, 2 open, 3 cleanup) or the write itself fails (4). The log call must not lose the
// record because the *rotation* failed: the failure is reported exactly once on the error channel
// and the record is written to the writer that is mounted at that moment; only a failing write
// loses (exactly) its own record and returns the error to the caller, who reports it.
fn step_fault_case(fault: u64) {
    vs::link_all();
    vs::cell_set(0, fault);
    vs::cell_set(1, 0);
    let idx: u32 = kani::any();
    kani::assume(idx < 1000);
    let max_size: u64 = kani::any();
    let current_size: u64 = kani::any();
    kani::assume(current_size < (1u64 << 63));
    let mut state = numbers_state(idx, max_size, current_size);
    let len: usize = kani::any();
    kani::assume(len >= 1 && len <= 8);
    let buf = [b'x'; 8];
    let r = state.write_buffer(&buf[..len]);
    let ok = r.is_ok();
    std::mem::forget(r);
    let rotate = current_size > max_size;
    let mut n = 0usize;
    // which writer is mounted when the record is written, and what the bookkeeping must say
    let (w, idx2, base): (u32, u32, u64) = if !rotate {
        (0, idx, current_size)
    } else if fault == 1 {
        assert!(vs::ev_len() >= 2 && vs::ev_get(0) == 1 && vs::ev_get(1) == 5);
        n = 2;
        (0, idx, current_size)
    } else if fault == 2 {
        assert!(vs::ev_len() >= 3 && vs::ev_get(0) == 1 && vs::ev_get(1) == 2 && vs::ev_get(2) == 5);
        n = 3;
        (0, idx + 1, current_size)
    } else if fault == 3 {
        assert!(vs::ev_len() >= 5 && vs::ev_get(0) == 1 && vs::ev_get(1) == 2 && vs::ev_get(2) == 0x300 && vs::ev_get(3) == 3 && vs::ev_get(4) == 5);
        n = 5;
        (1, idx + 1, 0)
    } else {
        assert!(vs::ev_len() >= 4 && vs::ev_get(0) == 1 && vs::ev_get(1) == 2 && vs::ev_get(2) == 0x300 && vs::ev_get(3) == 3);
        n = 4;
        (1, idx + 1, 0)
    };
    if fault == 4 {
        // the write failed: Err to the caller, nothing recorded as written, size count unchanged
        assert!(!ok && vs::ev_len() == n);
    } else {
        // a failed rotation does not cost the record: written once, to the mounted writer
        assert!(ok);
        assert!(vs::ev_len() == n + 1 && vs::ev_get(n) == (0x100 | w << 4 | len as u32));
    }
    if let Inner::Active(Some(rs), _, _) = &state.inner {
        match (&rs.naming_state, &rs.roll_state) {
            (NamingState::NumbersRCurrent(i2), RollState::Size { max_size: m2, current_size: c2 }) => {
                assert!(*m2 == max_size && *i2 == idx2);
                assert!(*c2 == if fault == 4 { base } else { base + len as u64 });
            }
            _ => unreachable!(),
        }
    } else {
        unreachable!();
    }
    kani::cover!(rotate, "the write tried to rotate");
    kani::cover!(!rotate, "no rotation due");
    std::mem::forget(state);
}
macro_rules! step_fault_instance {
    ($name:ident, $fault:expr) => {
        step_harness! { 10,
        fn $name() {
            step_fault_case($fault);
        }
        }
    };
}
// @verif prop=C19,C01 tier=probe timeout=900 bounds=one-write_buffer-call-with-the-real-rotation-half,state-symbolic-as-above,record-1..8-bytes,rename-step-fails(EACCES)
// BUDGET GATE (all four fault instances): no result in 360 s / 12 GB - with a live Err path the FlexiLoggerError that write_buffer hands to eprint_err is dropped, and CBMC unwinds the mutually recursive drop glue (FlexiLoggerError <-> io::Error <-> Box<dyn Error>) to the bound; the fault points stay decided on the two halves (c19_rotate_*, c01_write_buffer_glue). Not registered.
// A write whose rotation fails at the rename: reported once, the record is written to the old writer (still mounted), index and size count go on unchanged - nothing is lost, the rotation is retried by the next write.
step_fault_instance!(c19_step_rename_fails, 1);
// @verif prop=C19,C01 tier=probe timeout=900 bounds=same,open-fails-after-the-rename(EACCES)
// ... fails at the open after the rename: reported once, the record goes to the old writer (now the renamed file).
step_fault_instance!(c19_step_open_fails, 2);
// @verif prop=C19,C07 tier=probe timeout=900 bounds=same,cleanup-fails(EIO)
// ... fails in the cleanup: reported once, the rotation is complete and the record goes to the new file.
step_fault_instance!(c19_step_cleanup_fails, 3);
// @verif prop=C19,C08 tier=probe timeout=900 bounds=same,the-write-itself-fails(ENOSPC)-after-a-possible-rotation
// The write itself fails (after a possible, successful rotation): Err goes to the caller, the size count does not include the lost record, the state stays usable.
step_fault_instance!(c19_step_write_fails, 4);

fn write_buffer_glue_case(wfault: bool) {
    vs::link_all();
    vs::cell_set(0, if wfault { 4 } else { 0 });
    let max_size: u64 = kani::any();
    let current_size: u64 = kani::any();
    kani::assume(current_size < (1u64 << 63));
    let mut state = numbers_state(3, max_size, current_size);
    let len: usize = kani::any();
    kani::assume(len <= 8);
    let buf = [b'x'; 8];
    let r = state.write_buffer(&buf[..len]);
    let ok = r.is_ok();
    std::mem::forget(r);
    assert!(vs::ev_get(0) == 6);
    if wfault && len > 0 {
        assert!(!ok && vs::ev_len() == 1);
    } else {
        assert!(ok);
        if len > 0 {
            assert!(vs::ev_len() == 2 && vs::ev_get(1) == (0x100 | len as u32));
        }
    }
    if let Inner::Active(Some(rs), _, _) = &state.inner {
        match &rs.roll_state {
            RollState::Size { max_size: m2, current_size: c2 } => {
                assert!(*m2 == max_size);
                assert!(*c2 == if ok { current_size + len as u64 } else { current_size });
            }
            _ => unreachable!(),
        }
    } else {
        unreachable!();
    }
    kani::cover!(wfault || (ok && len == 8), "8-byte record written");
    kani::cover!(!wfault || !ok, "write failed");
    kani::cover!(ok && len == 0, "empty record");
    std::mem::forget(state);
}
macro_rules! wb_harness {
    (fn $name:ident() $body:block) => {
        #[kani::proof]
        #[kani::unwind(10)]
        #[kani::stub(verif_support::reexp::catch_unwind, verif_support::stub_cu)]
        #[kani::stub(chrono::Local::now, stub_now)]
        #[kani::stub(State::initialize, cut_initialize)]
        #[kani::stub(State::mount_next_linewriter_if_necessary, rec_mount_next)]
        #[kani::stub(crate::util::eprint_err, stub_eprint_err_ev)]
        #[kani::stub(crate::parameters::file_spec::TimestampCfg::get_timestamp, crate::parameters::file_spec::verif_harness::cut_get_timestamp)]
        fn $name() $body
    };
}
// @verif prop=C01,C08,C15 tier=quick timeout=900 bounds=one-write_buffer-call,Size{max,cur}(cur<2^63),record-length<=8-symbolic,no-fault
// (B) write_buffer on an Active state: asks the rotation half exactly once (not forced) before writing, hands the whole record to the mounted writer in one piece exactly once, and only then adds its length to the size count; an Active state is never re-initialised.
wb_harness! {
fn c01_write_buffer_glue() {
    write_buffer_glue_case(false);
}
}
// @verif prop=C19,C08 tier=probe timeout=900 bounds=same,write-fails(ENOSPC)
// BUDGET GATE: does not finish (live io::Error path -> recursive error drop glue); not registered.
// (B) with a failing write: Err is returned to the caller (who reports it) and the size count stays unchanged.
wb_harness! {
fn c19_write_buffer_write_fails() {
    write_buffer_glue_case(true);
}
}

// ------------------------------------------------------------------------------------------------
// @verif prop=C07,C06 tier=quick timeout=600 bounds=all-NamingState-shapes(idx/timestamp-symbolic,current-infix-present/absent,Std/Custom-format)
// NamingState::writes_direct() - the flag that makes cleanup spare the file currently written to - is true exactly for the namings that write directly into a rotated-style name (NumbersDirect, timestamps without a "current" infix), and infix_filter() selects the numbers filter for number namings and the timestamp filter (with the state's own format) otherwise.
#[kani::proof]
#[kani::unwind(8)]
#[kani::stub(verif_support::reexp::catch_unwind, verif_support::stub_cu)]
#[kani::stub(crate::parameters::file_spec::TimestampCfg::get_timestamp, crate::parameters::file_spec::verif_harness::cut_get_timestamp)]
#[kani::stub(chrono::Local::now, stub_now)]
fn c07_writes_direct_flag() {
    vs::link_all();
    let kind: u8 = kani::any();
    kani::assume(kind < 6);
    let idx: u32 = kani::any();
    let i = any_instant(0);
    let ts = dt_of(&i);
    let ns = match kind {
        0 => NamingState::NumbersRCurrent(idx),
        1 => NamingState::NumbersDirect(idx),
        2 => NamingState::Timestamps { current_timestamp: ts, the_current_infix: Some("rCURRENT".to_string()), infix_format: InfixFormat::Std },
        3 => NamingState::Timestamps { current_timestamp: ts, the_current_infix: None, infix_format: InfixFormat::Std },
        4 => NamingState::Timestamps { current_timestamp: ts, the_current_infix: Some("cur".to_string()), infix_format: InfixFormat::custom("%Y") },
        _ => NamingState::Timestamps { current_timestamp: ts, the_current_infix: None, infix_format: InfixFormat::custom("%Y") },
    };
    let want_direct = kind == 1 || kind == 3 || kind == 5;
    assert!(ns.writes_direct() == want_direct);
    let f = ns.infix_filter();
    match f {
        InfixFilter::Numbrs => assert!(kind <= 1),
        InfixFilter::Timstmps(InfixFormat::Std) => assert!(kind == 2 || kind == 3),
        InfixFilter::Timstmps(InfixFormat::Custom(_)) => assert!(kind >= 4),
        _ => assert!(false),
    }
    kani::cover!(kind == 3, "TimestampsDirect");
    kani::cover!(kind == 5, "custom format without current infix");
    std::mem::forget(ns);
    std::mem::forget(f);
}

// ================================================================================================
// C04 / C15 (synchronous modes, State level): the real std::io::BufWriter - the buffer of
// WriteMode::BufferDontFlush / BufferAndFlush - runs over a byte-recording sink instead of a File.
// What is decided is the crate's use of it: write_buffer -> (buffer) -> flush() / shutdown().
struct ByteW;
impl Write for ByteW {
    fn write(&mut self, b: &[u8]) -> std::io::Result<usize> {
        let mut i = 0;
        while i < b.len() {
            vs::ev_push(b[i] as u32);
            i += 1;
        }
        Ok(b.len())
    }
    fn flush(&mut self) -> std::io::Result<()> {
        vs::cell_inc(7);
        Ok(())
    }
}
fn sink_state(buffer_cap: Option<usize>) -> State {
    let cfg = mk_config(FileSpec::default().directory("d").basename("b").suffix("l").suppress_timestamp(), false, WriteMode::Direct);
    let w: Box<dyn Write + Send> = match buffer_cap {
        Some(cap) => Box::new(BufWriter::with_capacity(cap, ByteW)),
        None => Box::new(ByteW),
    };
    active_state(
        cfg,
        Inner::Active(
            Some(RotationState {
                naming_state: NamingState::NumbersRCurrent(0),
                roll_state: RollState::Size { max_size: u64::MAX, current_size: 0 },
                cleanup: Cleanup::Never,
                o_cleanup_thread_handle: None,
            }),
            w,
            PathBuf::from("c"),
        ),
    )
}
// op: 0 = flush, 1 = shutdown
fn sink_case(buffer_cap: Option<usize>, op: u8) {
    vs::link_all();
    vs::cell_set(0, 0);
    let mut state = sink_state(buffer_cap);
    let l1: usize = kani::any();
    let l2: usize = kani::any();
    kani::assume(l1 <= 5 && l2 <= 5);
    let r1 = [b'a'; 5];
    let r2 = [b'b'; 5];
    // results are forgotten, not dropped: io::Error's drop glue does not terminate in CBMC
    std::mem::forget(state.write_buffer(&r1[..l1]));
    std::mem::forget(state.write_buffer(&r2[..l2]));
    // before flush: what reached the sink is a prefix of the stream (nothing out of order, nothing twice)
    let n0 = vs::ev_len();
    assert!(n0 <= l1 + l2);
    let mut i = 0;
    while i < n0 {
        assert!(vs::ev_get(i) == if i < l1 { b'a' as u32 } else { b'b' as u32 });
        i += 1;
    }
    if buffer_cap.is_none() {
        assert!(n0 == l1 + l2); // direct mode: present as soon as the call returned
    }
    if op == 0 {
        let r = state.flush();
        let ok = r.is_ok();
        std::mem::forget(r);
        assert!(ok);
    } else {
        state.shutdown();
    }
    // after flush / shutdown returned: every accepted byte is in the sink, once, in order
    let n = vs::ev_len();
    assert!(n == l1 + l2);
    let mut i = 0;
    while i < n {
        assert!(vs::ev_get(i) == if i < l1 { b'a' as u32 } else { b'b' as u32 });
        i += 1;
    }
    kani::cover!(buffer_cap.is_none() || n0 < n, "something was still buffered before flush/shutdown");
    kani::cover!(buffer_cap.is_none() || (n0 > 0 && n0 < n), "first record partly or fully out, second still buffered");
    kani::cover!(l1 == 0 && l2 == 5, "empty record followed by a record larger than the buffer");
    std::mem::forget(state);
}
macro_rules! sink_instance {
    ($name:ident, $cap:expr, $op:expr) => {
        #[kani::proof]
        #[kani::unwind(13)]
        #[kani::stub(verif_support::reexp::catch_unwind, verif_support::stub_cu)]
        #[kani::stub(crate::parameters::file_spec::TimestampCfg::get_timestamp, crate::parameters::file_spec::verif_harness::cut_get_timestamp)]
        #[kani::stub(chrono::Local::now, stub_now)]
        #[kani::stub(State::initialize, cut_initialize)]
        #[kani::stub(State::mount_next_linewriter_if_necessary, rec_mount_next_quiet)]
        #[kani::stub(crate::util::eprint_err, stub_eprint_err_ev)]
        #[kani::stub(list_and_cleanup::CleanupThreadHandle::shutdown, cut_cleanup_thread_shutdown)]
        fn $name() {
            sink_case($cap, $op);
        }
    };
}
// `Option<CleanupThreadHandle>` is None in these states but its discriminant is not folded: the
// Some arm (message to and join of the cleanup thread) would be explored.
fn cut_cleanup_thread_shutdown(_h: list_and_cleanup::CleanupThreadHandle) {
    unreachable!("VERIF-CUT CleanupThreadHandle::shutdown without a cleanup thread")
}
fn rec_mount_next_quiet(_s: &mut State, _force: bool) -> Result<(), FlexiLoggerError> {
    Ok(())
}
// @verif prop=C04,C15 tier=quick timeout=900 bounds=BufWriter(capacity-4)-over-recording-sink,2-records-of-symbolic-length<=5,flush()
// Buffered synchronous mode: once State::flush() has returned, every byte of every record accepted before is in the sink exactly once and in order (records below, at and above the buffer capacity); before that the sink holds a prefix.
sink_instance!(c04_buffered_flush, Some(4), 0);
// @verif prop=C04,C15 tier=probe timeout=900 bounds=same,shutdown()
// BUDGET GATE: State::shutdown drops the Result of BufWriter::flush (`.ok()`): the io::Error drop glue does not terminate (> 12 GB); not registered.
// ... the same after State::shutdown().
sink_instance!(c04_buffered_shutdown, Some(4), 1);
// @verif prop=C04,C15,C11 tier=quick timeout=900 bounds=direct-writer(no-buffer),2-records-of-symbolic-length<=5,shutdown()
// Direct mode: every record is in the sink as soon as write_buffer returned; the delivered byte sequence equals the reference stream - the same reference the buffered instances are decided against, so the contents do not depend on the write mode.
sink_instance!(c04_direct_shutdown, None, 1);

// ------------------------------------------------------------------------------------------------
// Integrated history of two writes over the real BufWriter with the real rotation half (session 3):
// C01 / C04 / C15 for the buffered synchronous modes *through rotations*: each sink stands for one
// file (id 0 = the file open at the start, 1, 2 = the files opened by rotations); a rotation drops
// the old BufWriter (which must flush what it still holds into *its* file) and mounts a new one.
struct SinkW {
    id: u32,
}
impl Write for SinkW {
    fn write(&mut self, b: &[u8]) -> std::io::Result<usize> {
        let mut i = 0;
        while i < b.len() {
            vs::bl_push(self.id, b[i]);
            i += 1;
        }
        Ok(b.len())
    }
    fn flush(&mut self) -> std::io::Result<()> {
        vs::cell_inc(7);
        Ok(())
    }
}
fn stub_open_bufsink(_c: &FileLogWriterConfig, _o_infix: Option<&str>) -> Result<(Box<dyn Write + Send>, PathBuf), std::io::Error> {
    vs::ev_push(2);
    let id = vs::cell_inc(1) as u32;
    let cap = vs::cell_get(2) as usize;
    let w: Box<dyn Write + Send> = if cap == 0 { Box::new(SinkW { id }) } else { Box::new(BufWriter::with_capacity(cap, SinkW { id })) };
    Ok((w, PathBuf::from("n")))
}
fn stub_open_sink(_c: &FileLogWriterConfig, _o_infix: Option<&str>) -> Result<(Box<dyn Write + Send>, PathBuf), std::io::Error> {
    vs::ev_push(2);
    let id = vs::cell_inc(1) as u32;
    Ok((Box::new(SinkW { id }), PathBuf::from("n")))
}
// the write mode is a type parameter so that the direct instances do not link BufWriter at all
trait MkW {
    const CAP: usize;
    fn mk0() -> Box<dyn Write + Send>;
}
struct DirectMode;
impl MkW for DirectMode {
    const CAP: usize = 0;
    fn mk0() -> Box<dyn Write + Send> {
        Box::new(SinkW { id: 0 })
    }
}
struct BufferedMode;
impl MkW for BufferedMode {
    const CAP: usize = 4;
    fn mk0() -> Box<dyn Write + Send> {
        Box::new(BufWriter::with_capacity(4, SinkW { id: 0 }))
    }
}
fn history_case<M: MkW>(first_rotates: bool) {
    let cap = M::CAP;
    vs::link_all();
    vs::cell_set(0, 0);
    vs::cell_set(1, 0);
    vs::cell_set(2, cap as u64);
    let idx: u32 = kani::any();
    kani::assume(idx < 1000);
    let max_size: u64 = kani::any();
    let current_size: u64 = kani::any();
    kani::assume(current_size < (1u64 << 62));
    // the rotation decision of the *first* write is fixed per instance (both instances together cover
    // every start state): with it symbolic the shape of the state after the first step (which writer
    // is mounted) is merged and CBMC ran out of memory (12 GB) in the second step
    kani::assume((current_size > max_size) == first_rotates);
    let cfg = mk_config(FileSpec::default().directory("d").basename("b").suffix("l").suppress_timestamp(), false, WriteMode::Direct);
    // (the buffered variant is only linked into the buffered instances: a reachable BufWriter vtable
    // makes CBMC explore its drop glue for every `Box<dyn Write>` that is released)
    let w0: Box<dyn Write + Send> = M::mk0();
    let mut state = active_state(
        cfg,
        Inner::Active(
            Some(RotationState {
                naming_state: NamingState::NumbersRCurrent(idx),
                roll_state: RollState::Size { max_size, current_size },
                cleanup: Cleanup::Never,
                o_cleanup_thread_handle: None,
            }),
            w0,
            PathBuf::from("c"),
        ),
    );
    let l1: usize = kani::any();
    let l2: usize = kani::any();
    kani::assume(l1 >= 1 && l1 <= 5 && l2 >= 1 && l2 <= 5);
    let r1 = [b'a'; 5];
    let r2 = [b'b'; 5];
    std::mem::forget(state.write_buffer(&r1[..l1]));
    std::mem::forget(state.write_buffer(&r2[..l2]));
    let f = state.flush();
    let fok = f.is_ok();
    std::mem::forget(f);
    assert!(fok);
    // reference, from the property text: a record goes to a fresh file iff the current one already
    // holds more than N bytes when the record arrives
    let mut w1 = 0u16;
    let mut cur = current_size;
    if cur > max_size {
        w1 += 1;
        cur = 0;
    }
    cur += l1 as u64;
    let mut w2 = w1;
    if cur > max_size {
        w2 += 1;
        cur = 0;
    }
    cur += l2 as u64;
    // after flush(): every byte of both records is in its file, once, in order; the files read
    // oldest to newest give the stream
    assert!(vs::bl_len() == l1 + l2);
    let mut i = 0;
    while i < l1 + l2 {
        let want = if i < l1 { (w1 << 8) | b'a' as u16 } else { (w2 << 8) | b'b' as u16 };
        assert!(vs::bl_get(i) == want);
        i += 1;
    }
    if let Inner::Active(Some(rs), _, _) = &state.inner {
        match (&rs.naming_state, &rs.roll_state) {
            (NamingState::NumbersRCurrent(i2), RollState::Size { max_size: m2, current_size: c2 }) => {
                assert!(*m2 == max_size && *i2 == idx + w2 as u32 && *c2 == cur);
            }
            _ => unreachable!(),
        }
    } else {
        unreachable!();
    }
    kani::cover!(w2 == w1 + 1, "the second write rotated");
    kani::cover!(w2 == w1 && l1 < 4, "the second write did not rotate; the first record was still buffered (buffered instances)");
    std::mem::forget(state);
}
macro_rules! history_instance {
    ($name:ident, $mode:ident, $first:expr, $open:ident) => {
        #[kani::proof]
        #[kani::unwind(13)]
        #[kani::stub(verif_support::reexp::catch_unwind, verif_support::stub_cu)]
        #[kani::stub(chrono::Local::now, stub_now)]
        #[kani::stub(get_creation_timestamp, stub_creation_ts)]
        #[kani::stub(numbers::index_for_rcurrent, stub_index_for_rcurrent)]
        #[kani::stub(numbers::number_infix, cut_number_infix)]
        #[kani::stub(open_log_file, $open)]
        #[kani::stub(list_and_cleanup::remove_or_compress_too_old_logfiles, stub_cleanup)]
        #[kani::stub(timestamps::creation_timestamp_of_currentfile, cut_ts_current)]
        #[kani::stub(timestamps::infix_from_timestamp, cut_infix_from_ts)]
        #[kani::stub(crate::util::eprint_err, stub_eprint_err_ev)]
        #[kani::stub(State::initialize, cut_initialize)]
        #[kani::stub(crate::parameters::file_spec::TimestampCfg::get_timestamp, crate::parameters::file_spec::verif_harness::cut_get_timestamp)]
        #[kani::stub(list_and_cleanup::CleanupThreadHandle::shutdown, cut_cleanup_thread_shutdown)]
        fn $name() {
            history_case::<$mode>($first);
        }
    };
}
// @verif prop=C01,C04,C15,C08 tier=probe timeout=900 bounds=2-writes(1..5-bytes-each)-then-flush,real-BufWriter(capacity-4)-per-file,real-rotation-half(leaves-by-contract),NumbersRCurrent(idx<1000),Size{max,cur}(cur<2^62)-symbolic,first-write-does-not-rotate
// BUDGET GATE (both buffered instances): out of memory (12 GB) after 880 s - a BufWriter that is *dropped* inside CBMC (the rotation releases the old writer) drops the io::Result of its final flush_buf, i.e. the recursive error drop glue; not registered. What is decided instead: c04_buffered_flush (real BufWriter, no rotation), c01_step_write_rotate_flush (rotation + flush, recording writers), c01_history_direct_* below.
// Buffered mode through rotations: two records on an arbitrary Active state, each rotating iff its file already exceeds N; after flush() the files (sinks) read oldest to newest hold exactly the two records, each once, in order - a BufWriter that is rotated away delivers what it still buffered into its own file. (start states in which the first write does not rotate)
history_instance!(c01_history_buffered_a, BufferedMode, false, stub_open_bufsink);
// @verif prop=C01,C04,C15,C08 tier=probe timeout=900 bounds=same,start-states-in-which-the-first-write-rotates
// ... start states in which the first write rotates.
history_instance!(c01_history_buffered_b, BufferedMode, true, stub_open_bufsink);
// @verif prop=C01,C15,C08 tier=quick timeout=900 bounds=same-history,direct-writers(no-buffer),first-write-does-not-rotate
// Direct mode, same history, same reference stream: the contents do not depend on the write mode.
history_instance!(c01_history_direct_a, DirectMode, false, stub_open_sink);
// @verif prop=C01,C15,C08 tier=quick timeout=900 bounds=same,first-write-rotates
// ... first write rotates.
history_instance!(c01_history_direct_b, DirectMode, true, stub_open_sink);

// ================================================================================================
// initialize_with_rotation (start of a run, number namings): which file is opened, which index is
// remembered, is the earlier current file rotated away first. Leaves by contract:
//   get_highest_index   -> cell 2 (0 = none, else idx+1)
//   index_for_rcurrent  -> records (o_idx is None, rotate flag) in cells 3/4, returns cell 5
//   number_infix        -> records idx in cell 6, returns "rN"
//   open_log_file       -> records the last byte of the infix it is asked for in cell 8
//   RollState::new      -> contract stub (decided in c08_rollstate_new_seeding)
fn stub_highest_init(_fs: &FileSpec) -> Option<u32> {
    let v = vs::cell_get(2);
    if v == 0 {
        None
    } else {
        Some((v - 1) as u32)
    }
}
fn stub_ifr_init(_c: &FileLogWriterConfig, o_idx: Option<u32>, rotate: bool) -> Result<u32, std::io::Error> {
    vs::cell_set(3, if o_idx.is_none() { 1 } else { 2 });
    vs::cell_set(4, if rotate { 1 } else { 2 });
    Ok(vs::cell_get(5) as u32)
}
fn stub_number_infix_init(idx: u32) -> String {
    vs::cell_set(6, idx as u64 + 1);
    let mut s = String::with_capacity(2);
    s.push('r');
    s.push('N');
    s
}
fn stub_open_init(_c: &FileLogWriterConfig, o_infix: Option<&str>) -> Result<(Box<dyn Write + Send>, PathBuf), std::io::Error> {
    let b = o_infix.unwrap_or("").as_bytes();
    vs::cell_set(8, if b.is_empty() { 0 } else { b[b.len() - 1] as u64 });
    Ok((Box::new(RecW { id: 1 }), PathBuf::from("n")))
}
fn stub_rollstate_new(criterion: Criterion, _append: bool, _p: &Path) -> Result<RollState, std::io::Error> {
    Ok(match criterion {
        Criterion::Size(max_size) => RollState::Size { max_size, current_size: 0 },
        _ => RollState::Size { max_size: 0, current_size: 0 },
    })
}
fn cut_latest_ts(_c: &FileLogWriterConfig, _r: bool, _f: &InfixFormat) -> DateTime<Local> {
    unreachable!("VERIF-CUT latest_timestamp_file in a number-naming instance")
}
fn cut_start_cleanup_thread(_c: Cleanup, _f: FileSpec, _i: &InfixFilter, _d: bool) -> Result<list_and_cleanup::CleanupThreadHandle, std::io::Error> {
    unreachable!("VERIF-CUT start_cleanup_thread (Cleanup::Never)")
}
fn init_case(direct: bool) {
    vs::link_all();
    let append: bool = kani::any();
    let highest_plus1: u64 = kani::any();
    kani::assume(highest_plus1 <= 1000);
    vs::cell_set(2, highest_plus1);
    let ifr_result: u64 = kani::any();
    kani::assume(ifr_result <= 1000);
    vs::cell_set(5, ifr_result);
    let cfg = mk_config(FileSpec::default().directory("d").basename("b").suffix("l").suppress_timestamp(), append, WriteMode::Direct);
    let rc = RotationConfig {
        criterion: Criterion::Size(100),
        naming: if direct { Naming::NumbersDirect } else { Naming::Numbers },
        cleanup: Cleanup::Never,
    };
    let state = State::new(cfg, None, false);
    let r = state.initialize_with_rotation(&rc, false);
    match &r {
        Ok(Inner::Active(Some(rs), _, _)) => match rs.naming_state {
            NamingState::NumbersDirect(idx) => {
                assert!(direct);
                // appending continues in the highest existing file; otherwise a *new* number above all existing ones
                let want = if highest_plus1 == 0 { 0 } else if append { highest_plus1 - 1 } else { highest_plus1 };
                assert!(idx as u64 == want);
                assert!(vs::cell_get(6) == want + 1); // the name that is opened is the rendering of that index
                assert!(vs::cell_get(8) == b'N' as u64);
            }
            NamingState::NumbersRCurrent(idx) => {
                assert!(!direct);
                // the index comes from index_for_rcurrent(None, rotate = !append): without append the
                // earlier current file is rotated away first, with append it is continued
                assert!(vs::cell_get(3) == 1);
                assert!(vs::cell_get(4) == if append { 2 } else { 1 });
                assert!(idx as u64 == ifr_result);
                assert!(vs::cell_get(8) == b'T' as u64); // "rCURRENT" is what is opened
            }
            _ => assert!(false),
        },
        _ => assert!(false),
    }
    kani::cover!(highest_plus1 == 1 && !append, "restart without append, highest existing index is 0");
    kani::cover!(highest_plus1 == 0, "empty directory");
    kani::cover!(append && highest_plus1 == 8, "append to the highest existing file");
    std::mem::forget(r);
    std::mem::forget(state);
}
macro_rules! init_instance {
    ($name:ident, $direct:expr) => {
        #[kani::proof]
        #[kani::unwind(10)]
        #[kani::stub(verif_support::reexp::catch_unwind, verif_support::stub_cu)]
        #[kani::stub(crate::parameters::file_spec::TimestampCfg::get_timestamp, crate::parameters::file_spec::verif_harness::cut_get_timestamp)]
        #[kani::stub(chrono::Local::now, stub_now)]
        #[kani::stub(get_creation_timestamp, stub_creation_ts)]
        #[kani::stub(numbers::get_highest_index, stub_highest_init)]
        #[kani::stub(numbers::index_for_rcurrent, stub_ifr_init)]
        #[kani::stub(numbers::number_infix, stub_number_infix_init)]
        #[kani::stub(open_log_file, stub_open_init)]
        #[kani::stub(RollState::new, stub_rollstate_new)]
        #[kani::stub(timestamps::creation_timestamp_of_currentfile, cut_ts_current)]
        #[kani::stub(timestamps::infix_from_timestamp, cut_infix_from_ts)]
        #[kani::stub(timestamps::latest_timestamp_file, cut_latest_ts)]
        #[kani::stub(list_and_cleanup::start_cleanup_thread, cut_start_cleanup_thread)]
        #[kani::stub(list_and_cleanup::remove_or_compress_too_old_logfiles, stub_cleanup)]
        #[kani::stub(crate::util::eprint_err, stub_eprint_err_ev)]
        fn $name() {
            init_case($direct);
        }
    };
}
// @verif prop=C06,C01,C11 tier=quick timeout=900 bounds=Naming::NumbersDirect,append-symbolic,highest-existing-index<1000-or-none
// Start of a run with NumbersDirect: with append the highest existing numbered file is continued, without append a new number strictly above every existing one is opened (0 only in an empty directory) - an existing file is never re-opened for truncation.
init_instance!(c06_init_numbers_direct, true);
// @verif prop=C06,C01,C11 tier=quick timeout=900 bounds=Naming::Numbers,append-symbolic
// Start of a run with Numbers: the index is asked from index_for_rcurrent with "unknown" and rotate = !append (without append the earlier current file is rotated away before rCURRENT is opened, with append it is continued), and rCURRENT is what gets opened.
init_instance!(c06_init_numbers, false);

// ================================================================================================
// Rotation half for the other namings (glue level; their leaves by contract).
//   NumbersDirect: index += 1, the file named number_infix(index) is opened.
//   Timestamps with current infix: the closed file is renamed by creation_timestamp_of_currentfile
//     with the timestamp remembered *for that file* (its start), and the state remembers the start
//     of the new file.
//   Timestamps direct: the new file is named after the current clock reading (collision-free).
fn rec_number_infix(idx: u32) -> String {
    vs::ev_push(0x400 | (idx & 0xff));
    let mut s = String::with_capacity(2);
    s.push('r');
    s.push('N');
    s
}
fn rec_ts_current(_c: &FileLogWriterConfig, infix: &str, rotate: bool, o_date: Option<&DateTime<Local>>, _f: &InfixFormat) -> Result<DateTime<Local>, std::io::Error> {
    use chrono::Timelike;
    vs::ev_push(1);
    // which start time is used to name the rotated file: second-of-minute of the passed date (+1), 0 = none passed
    vs::cell_set(11, o_date.map_or(0, |d| d.second() as u64 + 1));
    vs::cell_set(12, if rotate { 1 } else { 2 });
    vs::cell_set(13, if infix.as_bytes() == b"rCURRENT" { 1 } else { 0 });
    if vs::cell_get(0) == 1 {
        return Err(std::io::Error::from_raw_os_error(13));
    }
    Ok(stub_now()) // start of the new current file = next clock value
}
fn rec_infix_from_ts(ts: &DateTime<Local>, _utc: bool, _f: &InfixFormat) -> String {
    use chrono::Timelike;
    vs::cell_set(14, ts.second() as u64 + 1);
    let mut s = String::with_capacity(2);
    s.push('r');
    s.push('S');
    s
}
fn rec_collision_free(_fs: &FileSpec, infix: &str) -> String {
    vs::ev_push(0x500 | infix.len() as u32);
    let mut s = String::with_capacity(3);
    s.push_str(infix);
    s.push('x');
    s
}
fn naming_state_with(ns: NamingState, max_size: u64, current_size: u64) -> State {
    let cfg = mk_config(FileSpec::default().directory("d").basename("b").suffix("l").suppress_timestamp(), false, WriteMode::Direct);
    active_state(
        cfg,
        Inner::Active(
            Some(RotationState {
                naming_state: ns,
                roll_state: RollState::Size { max_size, current_size },
                cleanup: Cleanup::Never,
                o_cleanup_thread_handle: None,
            }),
            Box::new(RecW { id: 0 }),
            PathBuf::from("c"),
        ),
    )
}
macro_rules! naming_step_harness {
    ($u:literal, fn $name:ident() $body:block) => {
        #[kani::proof]
        #[kani::unwind($u)]
        #[kani::stub(verif_support::reexp::catch_unwind, verif_support::stub_cu)]
        #[kani::stub(crate::parameters::file_spec::TimestampCfg::get_timestamp, crate::parameters::file_spec::verif_harness::cut_get_timestamp)]
        #[kani::stub(chrono::Local::now, stub_now)]
        #[kani::stub(get_creation_timestamp, stub_creation_ts)]
        #[kani::stub(numbers::index_for_rcurrent, stub_index_for_rcurrent)]
        #[kani::stub(numbers::number_infix, rec_number_infix)]
        #[kani::stub(open_log_file, stub_open_log_file)]
        #[kani::stub(list_and_cleanup::remove_or_compress_too_old_logfiles, stub_cleanup)]
        #[kani::stub(timestamps::creation_timestamp_of_currentfile, rec_ts_current)]
        #[kani::stub(timestamps::infix_from_timestamp, rec_infix_from_ts)]
        #[kani::stub(crate::FileSpec::collision_free_infix_for_rotated_file, rec_collision_free)]
        #[kani::stub(crate::util::eprint_err, stub_eprint_err_ev)]
        #[kani::stub(State::initialize, cut_initialize)]
        #[kani::stub(list_and_cleanup::CleanupThreadHandle::shutdown, cut_cleanup_thread_shutdown)]
        fn $name() $body
    };
}

// @verif prop=C01,C08 tier=quick timeout=900 bounds=NumbersDirect(idx<1000),Size{max,cur}-all-u64,force-symbolic,no-fault
// Rotation half, NumbersDirect: rotates iff forced or size > N; the next file is number_infix(index+1) - one above the file written so far -, it is opened, the old writer released, cleanup asked; index+1 and size 0 afterwards.
naming_step_harness! { 8,
fn c01_rotate_numbers_direct() {
    vs::link_all();
    vs::cell_set(0, 0);
    let idx: u32 = kani::any();
    kani::assume(idx < 200);
    let max_size: u64 = kani::any();
    let current_size: u64 = kani::any();
    let force: bool = kani::any();
    let mut state = naming_state_with(NamingState::NumbersDirect(idx), max_size, current_size);
    let r = state.mount_next_linewriter_if_necessary(force);
    let ok = r.is_ok();
    std::mem::forget(r);
    let rotate = force || current_size > max_size;
    assert!(ok);
    if rotate {
        assert!(vs::ev_len() == 4);
        assert!(vs::ev_get(0) == (0x400 | (idx + 1)) && vs::ev_get(1) == 2 && vs::ev_get(2) == 0x300 && vs::ev_get(3) == 3);
    } else {
        assert!(vs::ev_len() == 0);
    }
    if let Inner::Active(Some(rs), _, _) = &state.inner {
        match (&rs.naming_state, &rs.roll_state) {
            (NamingState::NumbersDirect(i2), RollState::Size { current_size: c2, .. }) => {
                assert!(*i2 == if rotate { idx + 1 } else { idx });
                assert!(*c2 == if rotate { 0 } else { current_size });
            }
            _ => unreachable!(),
        }
    }
    kani::cover!(rotate && !force, "rotation by size");
    kani::cover!(!rotate, "no rotation");
    std::mem::forget(state);
}
}

// @verif prop=C09,C01 tier=quick timeout=900 bounds=Timestamps-with-rCURRENT,file-start-second-symbolic,clock-later,force-or-size
// Rotation half, Timestamps with current infix: the closed file is renamed using the timestamp remembered as *its own start* (so timestamp-named files carry the time at which their content was started), the state then remembers the start of the new current file, rCURRENT is re-opened.
naming_step_harness! { 12,
fn c09_rotate_timestamps_rcurrent() {
    vs::link_all();
    vs::cell_set(0, 0);
    let s0: u32 = kani::any();
    kani::assume(s0 < 40);
    let started = vs::Instant { y: 2024, mo: 2, d: 29, h: 23, mi: 59, s: s0, off: 3600 };
    let later = vs::Instant { y: 2024, mo: 2, d: 29, h: 23, mi: 59, s: s0 + 7, off: 3600 };
    vs::clock_push(later);
    let max_size: u64 = kani::any();
    let current_size: u64 = kani::any();
    let force: bool = kani::any();
    let ns = NamingState::Timestamps { current_timestamp: dt_of(&started), the_current_infix: Some("rCURRENT".to_string()), infix_format: InfixFormat::Std };
    let mut state = naming_state_with(ns, max_size, current_size);
    let r = state.mount_next_linewriter_if_necessary(force);
    let ok = r.is_ok();
    std::mem::forget(r);
    let rotate = force || current_size > max_size;
    assert!(ok);
    if rotate {
        assert!(vs::ev_len() == 4 && vs::ev_get(0) == 1 && vs::ev_get(1) == 2 && vs::ev_get(2) == 0x300 && vs::ev_get(3) == 3);
        // the rotated file is named after the start of its own content, the rename is requested, for rCURRENT
        assert!(vs::cell_get(11) == s0 as u64 + 1 && vs::cell_get(12) == 1 && vs::cell_get(13) == 1);
    } else {
        assert!(vs::ev_len() == 0);
    }
    if let Inner::Active(Some(rs), _, _) = &state.inner {
        use chrono::Timelike;
        match &rs.naming_state {
            NamingState::Timestamps { current_timestamp, the_current_infix, .. } => {
                assert!(the_current_infix.is_some());
                // afterwards the state remembers the start of the *new* file
                assert!(current_timestamp.second() == if rotate { s0 + 7 } else { s0 });
            }
            _ => unreachable!(),
        }
    }
    kani::cover!(rotate, "rotated");
    kani::cover!(!rotate, "not rotated");
    std::mem::forget(state);
}
}

// @verif prop=C09,C01 tier=quick timeout=900 bounds=Timestamps-direct(no-current-infix),clock-symbolic-second,force-or-size
// Rotation half, direct timestamps: the new file is named after the clock reading at the rotation (made collision-free against existing names) and that reading is remembered as its start.
naming_step_harness! { 12,
fn c09_rotate_timestamps_direct() {
    vs::link_all();
    vs::cell_set(0, 0);
    let s0: u32 = kani::any();
    kani::assume(s0 < 40);
    let started = vs::Instant { y: 2024, mo: 2, d: 29, h: 23, mi: 59, s: s0, off: 0 };
    let now = vs::Instant { y: 2024, mo: 2, d: 29, h: 23, mi: 59, s: s0 + 3, off: 0 };
    vs::clock_push(now);
    let max_size: u64 = kani::any();
    let current_size: u64 = kani::any();
    let force: bool = kani::any();
    let ns = NamingState::Timestamps { current_timestamp: dt_of(&started), the_current_infix: None, infix_format: InfixFormat::Std };
    let mut state = naming_state_with(ns, max_size, current_size);
    let r = state.mount_next_linewriter_if_necessary(force);
    let ok = r.is_ok();
    std::mem::forget(r);
    let rotate = force || current_size > max_size;
    assert!(ok);
    if rotate {
        // infix derived from the clock reading -> made collision free -> opened -> old writer released -> cleanup
        assert!(vs::cell_get(14) == (s0 + 3) as u64 + 1);
        assert!(vs::ev_len() == 4 && vs::ev_get(0) == (0x500 | 2) && vs::ev_get(1) == 2 && vs::ev_get(2) == 0x300 && vs::ev_get(3) == 3);
    } else {
        assert!(vs::ev_len() == 0);
    }
    if let Inner::Active(Some(rs), _, _) = &state.inner {
        use chrono::Timelike;
        match &rs.naming_state {
            NamingState::Timestamps { current_timestamp, the_current_infix, .. } => {
                assert!(the_current_infix.is_none());
                assert!(current_timestamp.second() == if rotate { s0 + 3 } else { s0 });
            }
            _ => unreachable!(),
        }
    }
    kani::cover!(rotate, "rotated");
    std::mem::forget(state);
}
}

// Integrated step for the other namings (session 3): the real write_buffer with the real rotation
// half, then flush(). Whatever the naming does before (number / timestamp infix, collision-free
// name, rename of the current file), the record is written exactly once, after the rotation, to the
// writer mounted then, the size count restarts at the record's length, and flush() reaches that writer.
fn naming_integrated_case(kind: u8) {
    vs::link_all();
    vs::cell_set(0, 0);
    vs::cell_set(1, 0);
    let s0: u32 = kani::any();
    kani::assume(s0 < 40);
    let started = vs::Instant { y: 2024, mo: 2, d: 29, h: 23, mi: 59, s: s0, off: 0 };
    let now = vs::Instant { y: 2024, mo: 2, d: 29, h: 23, mi: 59, s: s0 + 3, off: 0 };
    vs::clock_push(now);
    let idx: u32 = kani::any();
    kani::assume(idx < 200);
    let max_size: u64 = kani::any();
    let current_size: u64 = kani::any();
    kani::assume(current_size < (1u64 << 63));
    let ns = match kind {
        0 => NamingState::NumbersDirect(idx),
        1 => NamingState::Timestamps { current_timestamp: dt_of(&started), the_current_infix: Some("rCURRENT".to_string()), infix_format: InfixFormat::Std },
        _ => NamingState::Timestamps { current_timestamp: dt_of(&started), the_current_infix: None, infix_format: InfixFormat::Std },
    };
    let mut state = naming_state_with(ns, max_size, current_size);
    let len: usize = kani::any();
    kani::assume(len >= 1 && len <= 8);
    let buf = [b'x'; 8];
    let r = state.write_buffer(&buf[..len]);
    let ok = r.is_ok();
    std::mem::forget(r);
    assert!(ok);
    let rotate = current_size > max_size;
    let w: u32 = if rotate { 1 } else { 0 };
    let n = vs::ev_len();
    // the last effect of the call is the one write of the record, to the writer mounted by then
    assert!(n >= 1 && vs::ev_get(n - 1) == (0x100 | w << 4 | len as u32));
    // exactly one open + one release of the old writer iff the call rotated, cleanup after them
    let mut opens = 0;
    let mut drops = 0;
    let mut writes = 0;
    let mut i = 0;
    while i < n {
        let e = vs::ev_get(i);
        if e == 2 {
            opens += 1;
        }
        if e == 0x300 {
            drops += 1;
        }
        if e & 0xf00 == 0x100 {
            writes += 1;
        }
        i += 1;
    }
    assert!(writes == 1 && opens == rotate as u32 && drops == rotate as u32);
    if rotate {
        assert!(n >= 4 && vs::ev_get(n - 2) == 3 && vs::ev_get(n - 3) == 0x300 && vs::ev_get(n - 4) == 2);
    } else {
        assert!(n == 1);
    }
    if let Inner::Active(Some(rs), _, _) = &state.inner {
        match &rs.roll_state {
            RollState::Size { max_size: m2, current_size: c2 } => {
                assert!(*m2 == max_size);
                assert!(*c2 == if rotate { len as u64 } else { current_size + len as u64 });
            }
            _ => unreachable!(),
        }
    } else {
        unreachable!();
    }
    let f = state.flush();
    let fok = f.is_ok();
    std::mem::forget(f);
    assert!(fok && vs::ev_len() == n + 1 && vs::ev_get(n) == (0x200 | w));
    kani::cover!(rotate, "the write rotated");
    kani::cover!(!rotate, "no rotation");
    std::mem::forget(state);
}
fn cut_index_for_rcurrent(_c: &FileLogWriterConfig, _o: Option<u32>, _r: bool) -> Result<u32, std::io::Error> {
    unreachable!("VERIF-CUT index_for_rcurrent in an instance of another naming")
}
fn cut_collision_free(_fs: &FileSpec, _infix: &str) -> String {
    unreachable!("VERIF-CUT collision_free_infix_for_rotated_file in an instance of another naming")
}
// no-fault variant of rec_ts_current (a leaf with a reachable Err return keeps the error path of the
// step alive for CBMC, see DESIGN.md 2)
fn ok_ts_current(_c: &FileLogWriterConfig, infix: &str, rotate: bool, o_date: Option<&DateTime<Local>>, _f: &InfixFormat) -> Result<DateTime<Local>, std::io::Error> {
    vs::ev_push(1);
    vs::cell_set(12, if rotate { 1 } else { 2 });
    vs::cell_set(13, if infix.as_bytes() == b"rCURRENT" { 1 } else { 0 });
    Ok(stub_now())
}
fn ok_open_log_file(_c: &FileLogWriterConfig, _o_infix: Option<&str>) -> Result<(Box<dyn Write + Send>, PathBuf), std::io::Error> {
    vs::ev_push(2);
    let id = vs::cell_inc(1) as u32;
    Ok((Box::new(RecW { id }), PathBuf::from("n")))
}
fn ok_cleanup(_h: Option<&list_and_cleanup::CleanupThreadHandle>, _c: &Cleanup, _f: &FileSpec, _i: &InfixFilter, _d: bool) -> Result<(), std::io::Error> {
    vs::ev_push(3);
    Ok(())
}
macro_rules! naming_integrated_harness {
    ($name:ident, $kind:expr, $ifr:ident, $ninfix:ident, $tscur:ident, $infixts:ident, $cfi:ident) => {
        #[kani::proof]
        #[kani::unwind(12)]
        #[kani::stub(verif_support::reexp::catch_unwind, verif_support::stub_cu)]
        #[kani::stub(crate::parameters::file_spec::TimestampCfg::get_timestamp, crate::parameters::file_spec::verif_harness::cut_get_timestamp)]
        #[kani::stub(chrono::Local::now, stub_now)]
        #[kani::stub(get_creation_timestamp, stub_creation_ts)]
        #[kani::stub(numbers::index_for_rcurrent, $ifr)]
        #[kani::stub(numbers::number_infix, $ninfix)]
        #[kani::stub(open_log_file, ok_open_log_file)]
        #[kani::stub(list_and_cleanup::remove_or_compress_too_old_logfiles, ok_cleanup)]
        #[kani::stub(timestamps::creation_timestamp_of_currentfile, $tscur)]
        #[kani::stub(timestamps::infix_from_timestamp, $infixts)]
        #[kani::stub(crate::FileSpec::collision_free_infix_for_rotated_file, $cfi)]
        #[kani::stub(crate::util::eprint_err, stub_eprint_err_ev)]
        #[kani::stub(State::initialize, cut_initialize)]
        #[kani::stub(list_and_cleanup::CleanupThreadHandle::shutdown, cut_cleanup_thread_shutdown)]
        fn $name() {
            naming_integrated_case($kind);
        }
    };
}
// @verif prop=C01,C04 tier=quick timeout=900 bounds=one-write_buffer-call-with-the-real-rotation-half,NumbersDirect(idx<200),Size{max,cur}(cur<2^63),record-1..8-bytes,then-flush()
// Integrated step, NumbersDirect: see above.
naming_integrated_harness!(c01_step_numbers_direct, 0, cut_index_for_rcurrent, rec_number_infix, cut_ts_current, cut_infix_from_ts, cut_collision_free);
// @verif prop=C01,C04 tier=probe timeout=900 bounds=same,Timestamps-with-rCURRENT(clock-symbolic-second)
// BUDGET GATE: out of memory (12 GB) after 356 s: `creation_timestamp_of_currentfile(..)?` converts an io::Error into a FlexiLoggerError on a path CBMC keeps alive; not registered (the rotation half of this naming is decided by c09_rotate_timestamps_rcurrent).
// Integrated step, timestamp naming with a current file.
naming_integrated_harness!(c01_step_timestamps_rcurrent, 1, cut_index_for_rcurrent, cut_number_infix, ok_ts_current, cut_infix_from_ts, cut_collision_free);
// @verif prop=C01,C04 tier=quick timeout=900 bounds=same,TimestampsDirect(clock-symbolic-second)
// Integrated step, direct timestamp naming.
naming_integrated_harness!(c01_step_timestamps_direct, 2, cut_index_for_rcurrent, cut_number_infix, cut_ts_current, rec_infix_from_ts, rec_collision_free);

// @verif prop=C09,C01 tier=quick timeout=900 bounds=NumbersRCurrent,Age::Second-and-AgeOrSize,file-start-and-now-symbolic-seconds-of-one-minute,sizes-all-u64
// Rotation half with the age criterion: rotates iff the clock shows a later second than the one in which the current file was started (or, with AgeOrSize, the size limit is exceeded); afterwards the remembered start is that of the new file, so no rotation happens again within the same period.
naming_step_harness! { 12,
fn c09_rotate_by_age() {
    vs::link_all();
    vs::cell_set(0, 0);
    let s0: u32 = kani::any();
    let s1: u32 = kani::any();
    kani::assume(s0 < 50 && s1 >= s0 && s1 < 55);
    let started = vs::Instant { y: 2024, mo: 12, d: 31, h: 23, mi: 59, s: s0, off: -34200 };
    let now = vs::Instant { y: 2024, mo: 12, d: 31, h: 23, mi: 59, s: s1, off: -34200 };
    vs::clock_push(now); // read by the age test
    vs::clock_push(now); // birth time of the new file
    let with_size: bool = kani::any();
    let max_size: u64 = kani::any();
    let current_size: u64 = kani::any();
    let created_at = dt_of(&started);
    let roll = if with_size {
        RollState::AgeOrSize { age: Age::Second, created_at, max_size, current_size }
    } else {
        RollState::Age { age: Age::Second, created_at }
    };
    let mut state = naming_state_with(NamingState::NumbersRCurrent(4), 0, 0);
    if let Inner::Active(Some(rs), _, _) = &mut state.inner {
        rs.roll_state = roll;
    }
    let r = state.mount_next_linewriter_if_necessary(false);
    let ok = r.is_ok();
    std::mem::forget(r);
    let rotate = s1 != s0 || (with_size && current_size > max_size);
    assert!(ok);
    assert!(vs::ev_len() == if rotate { 4 } else { 0 });
    if rotate {
        // the start time that is remembered is the birth time of the *newly opened* file
        assert!(vs::cell_get(10) == b'n' as u64);
    }
    if let Inner::Active(Some(rs), _, _) = &state.inner {
        use chrono::Timelike;
        match &rs.roll_state {
            RollState::Age { created_at, .. } => {
                assert!(!with_size);
                assert!(created_at.second() == if rotate { s1 } else { s0 });
            }
            RollState::AgeOrSize { created_at, current_size: c2, .. } => {
                assert!(with_size);
                assert!(created_at.second() == if rotate { s1 } else { s0 });
                assert!(*c2 == if rotate { 0 } else { current_size });
            }
            _ => unreachable!(),
        }
    }
    kani::cover!(rotate && s1 != s0 && !with_size, "rotation by age");
    kani::cover!(rotate && s1 == s0, "rotation by size within the same period");
    kani::cover!(!rotate && with_size, "neither criterion met");
    std::mem::forget(state);
}
}

// ================================================================================================
// C18: reopen_outputfile. OpenOptions::open is replaced by a model that records the path and hands
// out a real std::fs::File over model descriptor 5; the real File / write_all code then runs down
// to the libc `write` model (event 0x600 | fd<<4 | count).
fn stub_oo_open<P: AsRef<Path>>(_o: &OpenOptions, path: P) -> std::io::Result<File> {
    use std::os::unix::ffi::OsStrExt;
    let b = path.as_ref().as_os_str().as_bytes();
    vs::ev_push(0x700 | if b == b"c" { 1 } else { 0 });
    Ok(vs::file_from_fd(5))
}
// @verif prop=C18 tier=probe timeout=900 bounds=Active-state(direct),record-lengths<=6-symbolic,reopen-succeeds
// BUDGET GATE: does not finish (> 10 GB): the Err arm of `match OpenOptions::open(..)` binds and drops an io::Error; not registered, C18 stays not applicable.
// reopen_outputfile: records written before go to the writer mounted before (the externally renamed file), the path that is re-opened is the original current path, the old writer is released, and records written afterwards go to the newly opened file - each exactly once, in order.
#[kani::proof]
#[kani::unwind(10)]
#[kani::stub(verif_support::reexp::catch_unwind, verif_support::stub_cu)]
#[kani::stub(crate::parameters::file_spec::TimestampCfg::get_timestamp, crate::parameters::file_spec::verif_harness::cut_get_timestamp)]
#[kani::stub(chrono::Local::now, stub_now)]
#[kani::stub(State::initialize, cut_initialize)]
#[kani::stub(State::mount_next_linewriter_if_necessary, rec_mount_next_quiet)]
#[kani::stub(crate::util::eprint_err, stub_eprint_err_ev)]
#[kani::stub(std::fs::OpenOptions::open, stub_oo_open)]
fn c18_reopen_switches_writer() {
    vs::link_all();
    vs::cell_set(0, 0);
    let mut state = numbers_state(0, u64::MAX, 0);
    let l1: usize = kani::any();
    let l2: usize = kani::any();
    kani::assume(l1 >= 1 && l1 <= 6 && l2 >= 1 && l2 <= 6);
    let buf = [b'x'; 6];
    std::mem::forget(state.write_buffer(&buf[..l1]));
    let r = state.reopen_outputfile();
    let ok = r.is_ok();
    std::mem::forget(r);
    assert!(ok);
    std::mem::forget(state.write_buffer(&buf[..l2]));
    assert!(vs::ev_len() == 4);
    assert!(vs::ev_get(0) == (0x100 | l1 as u32)); // before: old writer (id 0)
    assert!(vs::ev_get(1) == 0x701); // the original path is re-opened
    assert!(vs::ev_get(2) == 0x300); // old writer released
    assert!(vs::ev_get(3) == (0x600 | 5 << 4 | l2 as u32)); // after: the new file
    kani::cover!(l1 == 6 && l2 == 1, "lengths 6 and 1");
    std::mem::forget(state);
}

// ------------------------------------------------------------------------------------------------
// State::shutdown must flush the mounted writer - with and without rotation configured. (That the
// real BufWriter's flush() then delivers every buffered byte is decided by c04_buffered_flush; the
// two compose to "shutdown leaves nothing behind in the buffered modes". shutdown() directly over a
// BufWriter does not terminate: it drops the Result of BufWriter::flush.)
fn shutdown_flush_case(with_rotation: bool) {
    vs::link_all();
    vs::cell_set(0, 0);
    let cfg = mk_config(FileSpec::default().directory("d").basename("b").suffix("l").suppress_timestamp(), false, WriteMode::Direct);
    let rot = if with_rotation {
        Some(RotationState {
            naming_state: NamingState::NumbersRCurrent(0),
            roll_state: RollState::Size { max_size: 10, current_size: 0 },
            cleanup: Cleanup::Never,
            o_cleanup_thread_handle: None,
        })
    } else {
        None
    };
    let mut state = active_state(cfg, Inner::Active(rot, Box::new(RecW { id: 3 }), PathBuf::from("c")));
    let len: usize = kani::any();
    kani::assume(len <= 8);
    let buf = [b'x'; 8];
    std::mem::forget(state.write_buffer(&buf[..len]));
    let n0 = vs::ev_len();
    state.shutdown();
    // exactly one flush of the mounted writer, after everything that was written
    assert!(vs::ev_len() == n0 + 1 && vs::ev_get(n0) == (0x200 | 3));
    // flush() itself reaches the writer as well
    let f = state.flush();
    std::mem::forget(f);
    assert!(vs::ev_len() == n0 + 2 && vs::ev_get(n0 + 1) == (0x200 | 3));
    kani::cover!(len > 0, "a record was written before");
    std::mem::forget(state);
}
macro_rules! shutdown_instance {
    ($name:ident, $rot:expr) => {
        #[kani::proof]
        #[kani::unwind(10)]
        #[kani::stub(verif_support::reexp::catch_unwind, verif_support::stub_cu)]
        #[kani::stub(crate::parameters::file_spec::TimestampCfg::get_timestamp, crate::parameters::file_spec::verif_harness::cut_get_timestamp)]
        #[kani::stub(chrono::Local::now, stub_now)]
        #[kani::stub(State::initialize, cut_initialize)]
        #[kani::stub(State::mount_next_linewriter_if_necessary, rec_mount_next_quiet)]
        #[kani::stub(crate::util::eprint_err, stub_eprint_err_ev)]
        #[kani::stub(list_and_cleanup::CleanupThreadHandle::shutdown, cut_cleanup_thread_shutdown)]
        fn $name() {
            shutdown_flush_case($rot);
        }
    };
}
// @verif prop=C04 tier=quick timeout=600 bounds=Active-state-with-rotation,one-record<=8-bytes
// State::shutdown() (and flush()) flush the mounted writer exactly once - rotation configured.
shutdown_instance!(c04_shutdown_flushes_with_rotation, true);
// @verif prop=C04 tier=quick timeout=600 bounds=Active-state-without-rotation,one-record<=8-bytes
// ... and also when no rotation is configured (stand-alone / additional file writers are only ever shut down, never flushed first).
shutdown_instance!(c04_shutdown_flushes_without_rotation, false);

// ================================================================================================
// C19: a failing *first* initialisation (open / rename / metadata / initial cleanup fails when the
// first record arrives) must leave the state such that the next write retries the *same*
// initialisation - with the configured rotation - and succeeds once the fault has cleared.
// `initialize_with_rotation` is a contract stub (its leaves are decided by c06_init_* / c19_*):
// fails on its first call, succeeds afterwards; the no-rotation arm (`open_log_file(.., None)`)
// is cut: reaching it with rotation configured is a failure.
fn cut_open_log_file(_c: &FileLogWriterConfig, _o_infix: Option<&str>) -> Result<(Box<dyn Write + Send>, PathBuf), std::io::Error> {
    unreachable!("VERIF-CUT open_log_file without infix although rotation is configured")
}
fn stub_init_with_rotation(_s: &State, rc: &RotationConfig, _bg: bool) -> Result<Inner, std::io::Error> {
    let n = vs::cell_inc(2);
    // the configuration handed over is the one the writer was built with
    match rc.criterion {
        Criterion::Size(m) => vs::cell_set(3, m),
        _ => vs::cell_set(3, u64::MAX),
    }
    if n <= vs::cell_get(4) {
        return Err(std::io::Error::from_raw_os_error(21)); // EISDIR
    }
    Ok(Inner::Active(
        Some(RotationState {
            naming_state: NamingState::NumbersRCurrent(0),
            roll_state: RollState::Size { max_size: 10, current_size: 0 },
            cleanup: Cleanup::Never,
            o_cleanup_thread_handle: None,
        }),
        Box::new(RecW { id: 1 }),
        PathBuf::from("c"),
    ))
}
fn init_retry_case(with_retry: bool) {
    vs::link_all();
    let limit: u64 = kani::any();
    vs::cell_set(2, 0);
    vs::cell_set(4, 1); // the first attempt fails
    let cfg = mk_config(FileSpec::default().directory("d").basename("b").suffix("l").suppress_timestamp(), true, WriteMode::Direct);
    let rc = RotationConfig { criterion: Criterion::Size(limit), naming: Naming::Numbers, cleanup: Cleanup::Never };
    let mut state = State::new(cfg, Some(rc), false);
    let r = state.initialize();
    assert!(r.is_err());
    std::mem::forget(r);
    // still Initial, and still with the rotation configuration it was built with
    assert!(state.inner.uses_rotation());
    match &state.inner {
        Inner::Initial(Some(rc), false) => match rc.criterion {
            Criterion::Size(m) => assert!(m == limit),
            _ => assert!(false, "criterion changed"),
        },
        _ => assert!(false, "state after a failed initialisation is not Initial(Some(config), ..)"),
    }
    assert!(vs::cell_get(2) == 1 && vs::cell_get(3) == limit);
    if with_retry {
        let r = state.initialize();
        assert!(r.is_ok());
        std::mem::forget(r);
        assert!(matches!(state.inner, Inner::Active(Some(_), _, _)));
        assert!(vs::cell_get(2) == 2 && vs::cell_get(3) == limit);
    }
    kani::cover!(limit == 0, "size limit 0");
    std::mem::forget(state);
}
// @verif prop=C19 tier=quick timeout=600 bounds=first-initialisation-fails,rotation-configured(size-limit-symbolic)
// State::initialize: when the initialisation fails the error is returned and the state stays Initial *with its rotation configuration* (same criterion), so that the next write retries the initialisation with rotation - logging and rotation can resume without a restart once the fault has cleared.
#[kani::proof]
#[kani::unwind(6)]
#[kani::stub(verif_support::reexp::catch_unwind, verif_support::stub_cu)]
#[kani::stub(crate::parameters::file_spec::TimestampCfg::get_timestamp, crate::parameters::file_spec::verif_harness::cut_get_timestamp)]
#[kani::stub(chrono::Local::now, stub_now)]
#[kani::stub(State::initialize_with_rotation, stub_init_with_rotation)]
#[kani::stub(open_log_file, cut_open_log_file)]
fn c19_initialize_failure_keeps_rotation() {
    init_retry_case(false);
}
// @verif prop=C19 tier=quick timeout=600 bounds=first-initialisation-fails-once-then-succeeds
// ... and the retry runs the initialisation with rotation again (same configuration) and ends Active with rotation: logging and rotation resume without a restart.
#[kani::proof]
#[kani::unwind(6)]
#[kani::stub(verif_support::reexp::catch_unwind, verif_support::stub_cu)]
#[kani::stub(crate::parameters::file_spec::TimestampCfg::get_timestamp, crate::parameters::file_spec::verif_harness::cut_get_timestamp)]
#[kani::stub(chrono::Local::now, stub_now)]
#[kani::stub(State::initialize_with_rotation, stub_init_with_rotation)]
#[kani::stub(open_log_file, cut_open_log_file)]
fn c19_initialize_retry_keeps_rotation() {
    init_retry_case(true);
}

// ================================================================================================
// open_log_file: which path is opened, with which OpenOptions, and what the configured symlink
// points to afterwards. Environment:
//   OpenOptions::{write,create,append,truncate} record their argument (cells 20..23, value+1),
//   OpenOptions::open records the path (cell 24: 1 = "d/b_r1.l") and hands out a File over model fd 5,
//   symlink table of one entry (the configured link "lnk"): cell 10 = exists, cell 11 = what it
//   points to (0 = the file about to be opened, 1 = another existing file, 2 = a deleted file
//   (dangling), 3 = something else), cell 12 = the log file exists already;
//   symlink_metadata / remove_file / unix::fs::symlink / canonicalize answer from that table
//   (symlink() fails with EEXIST on an existing link, as the real one does).
fn oo_write(o: &mut OpenOptions, v: bool) -> &mut OpenOptions {
    vs::cell_set(20, v as u64 + 1);
    o
}
fn oo_create(o: &mut OpenOptions, v: bool) -> &mut OpenOptions {
    vs::cell_set(21, v as u64 + 1);
    o
}
fn oo_append(o: &mut OpenOptions, v: bool) -> &mut OpenOptions {
    vs::cell_set(22, v as u64 + 1);
    o
}
fn oo_truncate(o: &mut OpenOptions, v: bool) -> &mut OpenOptions {
    vs::cell_set(23, v as u64 + 1);
    o
}
fn path_is(p: &Path, want: &[u8]) -> bool {
    use std::os::unix::ffi::OsStrExt;
    let b = p.as_os_str().as_bytes();
    if b.len() != want.len() {
        return false;
    }
    let mut i = 0;
    while i < want.len() {
        if b[i] != want[i] {
            return false;
        }
        i += 1;
    }
    true
}
fn oo_open_rec<P: AsRef<Path>>(_o: &OpenOptions, path: P) -> std::io::Result<File> {
    vs::cell_set(24, if path_is(path.as_ref(), b"d/b_r1.l") { 1 } else { 2 });
    vs::cell_set(12, 1);
    vs::ev_push(0x700);
    Ok(vs::file_from_fd(5))
}
fn sl_symlink_metadata<P: AsRef<Path>>(path: P) -> std::io::Result<std::fs::Metadata> {
    assert!(path_is(path.as_ref(), b"lnk"));
    if vs::cell_get(10) == 1 {
        Ok(vs::zeroed_metadata())
    } else {
        Err(std::io::Error::from_raw_os_error(2))
    }
}
fn sl_remove_file<P: AsRef<Path>>(path: P) -> std::io::Result<()> {
    assert!(path_is(path.as_ref(), b"lnk"));
    if vs::cell_get(10) == 1 {
        vs::cell_set(10, 0);
        Ok(())
    } else {
        Err(std::io::Error::from_raw_os_error(2))
    }
}
fn sl_symlink<P: AsRef<Path>, Q: AsRef<Path>>(original: P, link: Q) -> std::io::Result<()> {
    assert!(path_is(link.as_ref(), b"lnk"));
    if vs::cell_get(10) == 1 {
        return Err(std::io::Error::from_raw_os_error(17)); // EEXIST
    }
    vs::cell_set(10, 1);
    vs::cell_set(11, if path_is(original.as_ref(), b"d/b_r1.l") { 0 } else { 3 });
    Ok(())
}
// canonicalize resolves symlinks and fails for anything that does not exist (in the end)
fn sl_canonicalize(p: &Path) -> std::io::Result<PathBuf> {
    let file_exists = vs::cell_get(12) == 1;
    if path_is(p, b"lnk") {
        if vs::cell_get(10) == 1 {
            match vs::cell_get(11) {
                0 if file_exists => Ok(PathBuf::from("/w/d/b_r1.l")),
                1 => Ok(PathBuf::from("/w/d/other.l")),
                _ => Err(std::io::Error::from_raw_os_error(2)),
            }
        } else {
            Err(std::io::Error::from_raw_os_error(2))
        }
    } else if file_exists {
        Ok(PathBuf::from("/w/d/b_r1.l"))
    } else {
        Err(std::io::Error::from_raw_os_error(2))
    }
}
macro_rules! open_harness {
    ($u:literal, fn $name:ident() $body:block) => {
        #[kani::proof]
        #[kani::unwind($u)]
        #[kani::stub(verif_support::reexp::catch_unwind, verif_support::stub_cu)]
        #[kani::stub(crate::parameters::file_spec::TimestampCfg::get_timestamp, crate::parameters::file_spec::verif_harness::cut_get_timestamp)]
        #[kani::stub(chrono::Local::now, stub_now)]
        #[kani::stub(crate::util::eprint_err, stub_eprint_err_ev)]
        #[kani::stub(std::fs::OpenOptions::write, oo_write)]
        #[kani::stub(std::fs::OpenOptions::create, oo_create)]
        #[kani::stub(std::fs::OpenOptions::append, oo_append)]
        #[kani::stub(std::fs::OpenOptions::truncate, oo_truncate)]
        #[kani::stub(std::fs::OpenOptions::open, oo_open_rec)]
        #[kani::stub(std::fs::symlink_metadata, sl_symlink_metadata)]
        #[kani::stub(std::fs::remove_file, sl_remove_file)]
        #[kani::stub(std::os::unix::fs::symlink, sl_symlink)]
        #[kani::stub(std::path::Path::canonicalize, sl_canonicalize)]
        fn $name() $body
    };
}
// @verif prop=C06,C16,C01 tier=quick timeout=600 bounds=append-symbolic,infix"r1",direct-mode,no-symlink
// open_log_file opens exactly directory/[basename]_[infix].[suffix], for writing, creating it if missing, and reports that path; with append configured the file is opened in append mode and never truncated (earlier content stays; truncation without append is the documented exception).
open_harness! { 12,
fn c06_open_log_file_flags() {
    vs::link_all();
    let append: bool = kani::any();
    let cfg = mk_config(FileSpec::default().directory("d").basename("b").suffix("l").suppress_timestamp(), append, WriteMode::Direct);
    let r = open_log_file(&cfg, Some("r1"));
    match &r {
        Ok((_w, p)) => assert!(path_is(p, b"d/b_r1.l")),
        Err(_) => assert!(false, "open failed although the environment succeeds"),
    }
    assert!(vs::cell_get(24) == 1);
    // opened for writing (write or append access), created if missing
    assert!(vs::cell_get(20) == 2 || vs::cell_get(22) == 2);
    assert!(vs::cell_get(21) == 2);
    // with append: append mode, and never truncated (earlier content stays). Without append the
    // documented truncation is *permitted*, not required - nothing is asserted about it.
    if append {
        assert!(vs::cell_get(22) == 2);
        assert!(vs::cell_get(23) != 2);
    }
    kani::cover!(append, "append");
    kani::cover!(!append, "no append");
    std::mem::forget(r);
    std::mem::forget(cfg);
}
}
fn symlink_case(l_exists: bool, l_target: u64) {
    vs::link_all();
    let append: bool = kani::any();
    let f_exists: bool = kani::any();
    vs::cell_set(10, l_exists as u64);
    vs::cell_set(11, l_target);
    vs::cell_set(12, f_exists as u64);
    let mut cfg = mk_config(FileSpec::default().directory("d").basename("b").suffix("l").suppress_timestamp(), append, WriteMode::Direct);
    cfg.o_create_symlink = Some(PathBuf::from("lnk"));
    let r = open_log_file(&cfg, Some("r1"));
    assert!(r.is_ok());
    assert!(vs::cell_get(24) == 1);
    // the link resolves to the file currently written to
    assert!(vs::cell_get(10) == 1 && vs::cell_get(11) == 0);
    // no error report (event 5) in a fault-free environment
    let mut i = 0;
    while i < vs::ev_len() && i < vs::NLOG {
        assert!(vs::ev_get(i) != 5);
        i += 1;
    }
    kani::cover!(!f_exists, "the log file does not exist yet");
    kani::cover!(f_exists && append, "the log file exists and is appended to");
    std::mem::forget(r);
    std::mem::forget(cfg);
}
// With a symlink configured, after open_log_file has returned the link exists and points to the
// file that was opened - whatever the link pointed to before - and nothing is reported on the
// error channel. The previous state of the link is concrete per instance (symbolic: no result in
// 15 min), whether the log file existed already and the append setting are symbolic.
// @verif prop=C16 tier=probe timeout=600 bounds=symlink-configured,no-link-before,log-file-exists-or-not+append-symbolic
// BUDGET GATE: no result in 400 s (the ENOENT result of symlink_metadata is dropped by `.is_ok()`: io::Error drop glue). No link yet: it is created and points to the opened file.
open_harness! { 12,
fn c16_symlink_absent() {
    symlink_case(false, 0);
}
}
// @verif prop=C16 tier=quick timeout=600 bounds=symlink-configured,link->another-existing-file(previous-log-file)
// The link points to another (earlier) log file: afterwards it points to the opened file.
open_harness! { 12,
fn c16_symlink_other_file() {
    symlink_case(true, 1);
}
}
// @verif prop=C16 tier=quick timeout=600 bounds=symlink-configured,dangling-link(target-deleted)
// The link dangles (its old target was deleted or moved away): afterwards it points to the opened file.
open_harness! { 12,
fn c16_symlink_dangling() {
    symlink_case(true, 2);
}
}
// @verif prop=C16 tier=thorough timeout=600 bounds=symlink-configured,link->the-same-file
// The link already points to the file that is (re-)opened: it still does afterwards.
open_harness! { 12,
fn c16_symlink_same_file() {
    symlink_case(true, 0);
}
}
fn writer_kind_case(buffered: bool) {
    vs::link_all();
    let cfg = mk_config(
        FileSpec::default().directory("d").basename("b").suffix("l").suppress_timestamp(),
        true,
        if buffered { WriteMode::BufferDontFlushWith(8) } else { WriteMode::Direct },
    );
    let r = open_log_file(&cfg, Some("r1"));
    let len: usize = kani::any();
    kani::assume(len >= 1 && len <= 4);
    let buf = [b'x'; 4];
    match r {
        Ok((mut w, p)) => {
            let n0 = vs::ev_len();
            // one write() call; see c18_reopen_only for why not write_all / flush on a real File
            let wr = w.write(&buf[..len]);
            match &wr {
                Ok(n) => assert!(*n == len),
                Err(_) => assert!(false, "write failed"),
            }
            std::mem::forget(wr);
            if buffered {
                // held in the user-space buffer (capacity 8 > len): nothing reaches the descriptor yet
                assert!(vs::ev_len() == n0);
            } else {
                assert!(vs::ev_len() == n0 + 1);
                assert!(vs::ev_get(n0) == (0x600 | 5 << 4 | len as u32));
            }
            std::mem::forget(w);
            std::mem::forget(p);
        }
        Err(e) => {
            std::mem::forget(e);
            assert!(false, "open failed");
        }
    }
    kani::cover!(len == 4, "4 bytes");
    std::mem::forget(cfg);
}
// @verif prop=C11,C15,C04 tier=quick timeout=600 bounds=WriteMode::Direct,one-chunk-of-symbolic-length<=4
// The writer open_log_file hands out in direct mode: the bytes reach the file descriptor when write returns (no user-space buffer: a kill afterwards cannot lose them).
open_harness! { 12,
fn c11_open_log_file_direct_writer() {
    writer_kind_case(false);
}
}
// @verif prop=C15,C04 tier=thorough timeout=900 bounds=WriteMode::BufferDontFlushWith(8),one-chunk-of-symbolic-length<=4
// ... in the buffered modes they are held back in a buffer of the configured capacity (what flush() then does with them is decided by c04_buffered_flush).
open_harness! { 12,
fn c11_open_log_file_buffered_writer() {
    writer_kind_case(true);
}
}
// ------------------------------------------------------------------------------------------------
// C18, reduced: reopen_outputfile alone (no write_buffer around it; the hand-over of records to the
// mounted writer is decided by c01_write_buffer_glue / c04_*).
fn cut_remove_file_reopen<P: AsRef<Path>>(_p: P) -> std::io::Result<()> {
    unreachable!("VERIF-CUT remove_file in reopen_outputfile (fallback path of a failing re-open)")
}
fn oo_open_reopen<P: AsRef<Path>>(_o: &OpenOptions, path: P) -> std::io::Result<File> {
    vs::ev_push(0x700 | if path_is(path.as_ref(), b"c") { 1 } else { 0 });
    Ok(vs::file_from_fd(5))
}
// @verif prop=C18,C11 tier=quick timeout=900 bounds=Active-state,mounted-writer=recording-sink,re-open-succeeds,one-chunk-of-symbolic-length<=4-afterwards
// reopen_outputfile: the path that is re-opened is the path of the current file (create + append: nothing is truncated), the writer mounted before is released (a BufWriter flushes what it holds into the old, externally renamed file when dropped), and bytes written afterwards go - unbuffered - to the newly opened file, not to the old writer.
#[kani::proof]
#[kani::unwind(10)]
#[kani::stub(verif_support::reexp::catch_unwind, verif_support::stub_cu)]
#[kani::stub(crate::parameters::file_spec::TimestampCfg::get_timestamp, crate::parameters::file_spec::verif_harness::cut_get_timestamp)]
#[kani::stub(chrono::Local::now, stub_now)]
#[kani::stub(crate::util::eprint_err, stub_eprint_err_ev)]
#[kani::stub(std::fs::OpenOptions::create, oo_create)]
#[kani::stub(std::fs::OpenOptions::append, oo_append)]
#[kani::stub(std::fs::OpenOptions::truncate, oo_truncate)]
#[kani::stub(std::fs::OpenOptions::write, oo_write)]
#[kani::stub(std::fs::OpenOptions::open, oo_open_reopen)]
#[kani::stub(std::fs::remove_file, cut_remove_file_reopen)]
#[kani::stub(std::path::PathBuf::set_extension, verif_support::set_extension_model)]
fn c18_reopen_only() {
    vs::link_all();
    vs::cell_set(0, 0);
    let mut state = numbers_state(0, u64::MAX, 0);
    let r = state.reopen_outputfile();
    let ok = r.is_ok();
    std::mem::forget(r);
    assert!(ok);
    // create(true) + append(true): earlier content of a file at that path is kept
    assert!(vs::cell_get(21) == 2); // created if missing (it was renamed / removed externally)
    assert!(vs::cell_get(22) == 2 || vs::cell_get(20) == 2); // opened for writing
    assert!(vs::cell_get(23) != 2); // never truncated: a file still at that path keeps its records
    // exactly two effects, in either order: the original path is re-opened (0x701) and the
    // writer mounted before (id 0) is released (0x300)
    assert!(vs::ev_len() == 2);
    let (e0, e1) = (vs::ev_get(0), vs::ev_get(1));
    assert!((e0 == 0x701 && e1 == 0x300) || (e0 == 0x300 && e1 == 0x701));
    let len: usize = kani::any();
    kani::assume(len >= 1 && len <= 4);
    let buf = [b'x'; 4];
    if let Inner::Active(_, ref mut w, ref p) = state.inner {
        assert!(path_is(p, b"c"));
        // one write() call (not write_all: its retry loop drops io::Error values, whose recursive
        // drop glue does not terminate in CBMC); the result is inspected and forgotten
        let wr = w.write(&buf[..len]);
        match &wr {
            Ok(n) => assert!(*n == len),
            Err(_) => assert!(false, "write to the re-opened file failed"),
        }
        std::mem::forget(wr);
    } else {
        assert!(false, "state no longer active");
    }
    assert!(vs::ev_len() == 3);
    // the new file receives the bytes, at once: re-opening does not put a user-space buffer in front
    // of a direct-mode file (a kill after the write returned cannot lose them)
    assert!(vs::ev_get(2) == (0x600 | 5 << 4 | len as u32));
    kani::cover!(len == 4, "4 bytes");
    std::mem::forget(state);
}
