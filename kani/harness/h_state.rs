// Harnesses that are children of `writers::file_log_writer::state` (see private items there).
use super::*;
use verif_support as vs;

// @verif prop=C08 tier=quick timeout=120 id=c08_size_kernel
// For all u64 max/cur: rotation_necessary() of a Size roll state == (cur > max).
#[kani::proof]
#[kani::stub(verif_support::reexp::catch_unwind, verif_support::stub_cu)]
fn c08_size_kernel() {
    vs::cell_set(0, 0);
    let max_size: u64 = kani::any();
    let current_size: u64 = kani::any();
    let rs = RollState::Size { max_size, current_size };
    assert!(rs.rotation_necessary() == (current_size > max_size));
    kani::cover!(current_size == max_size, "at limit");
    kani::cover!(max_size < u64::MAX && current_size == max_size + 1, "just above");
}
