// Harnesses that are children of `writers::file_log_writer::state` (they see its private items).
use super::*;
use chrono::{FixedOffset, NaiveDate};
use verif_support as vs;

include!(concat!(env!("CARGO_MANIFEST_DIR"), "/verif_seed.rs"));

// ------------------------------------------------------------------------------------------------
// E-clock stub for chrono::Local::now: next instant of the harness-supplied sequence.
fn dt_of(i: &vs::Instant) -> DateTime<Local> {
    let fo = FixedOffset::east_opt(i.off).unwrap();
    let ndt = NaiveDate::from_ymd_opt(i.y, i.mo, i.d).unwrap().and_hms_opt(i.h, i.mi, i.s).unwrap();
    // `ndt` is the local wall-clock reading; DateTime stores UTC + offset
    DateTime::from_naive_utc_and_offset(ndt - fo, fo)
}
fn stub_now() -> DateTime<Local> {
    dt_of(&vs::clock_next())
}
// Offsets: UTC, +1h, -9:30, +12:45, +5:45, -3h (seconds east)
const OFFSETS: [i32; 6] = [0, 3600, -34200, 45900, 20700, -10800];
fn any_offset() -> i32 {
    let k: usize = kani::any();
    kani::assume(k < OFFSETS.len());
    OFFSETS[k]
}
// A valid civil instant inside the seed-selected 4-year window (always holds a leap year and
// three year boundaries).
fn any_instant(off: i32) -> vs::Instant {
    let y: i32 = kani::any();
    let mo: u32 = kani::any();
    let d: u32 = kani::any();
    let h: u32 = kani::any();
    let mi: u32 = kani::any();
    let s: u32 = kani::any();
    kani::assume(y >= VERIF_YEAR0 && y < VERIF_YEAR0 + 4);
    kani::assume(mo >= 1 && mo <= 12 && d >= 1 && d <= 31 && h < 24 && mi < 60 && s < 60);
    kani::assume(NaiveDate::from_ymd_opt(y, mo, d).is_some());
    vs::Instant { y, mo, d, h, mi, s, off }
}
// Reference, written from the property text: the local clock reading truncated to the period.
// level 0 = day, 1 = hour, 2 = minute, 3 = second.
fn same_period(a: &vs::Instant, b: &vs::Instant, level: u8) -> bool {
    let mut same = (a.y, a.mo, a.d) == (b.y, b.mo, b.d);
    if level >= 1 {
        same = same && a.h == b.h;
    }
    if level >= 2 {
        same = same && a.mi == b.mi;
    }
    if level >= 3 {
        same = same && a.s == b.s;
    }
    same
}

fn c09_kernel(age: Age, level: u8) {
    vs::cell_set(0, 0);
    let off = any_offset();
    let created = any_instant(off);
    let now = any_instant(off);
    // monotone local clock (stated assumption; DST jumps are outside the claim)
    kani::assume(vs::instant_le(&created, &now));
    vs::clock_push(now);
    let created_at = dt_of(&created);
    let r = RollState::age_rotation_necessary(age, &created_at);
    let expect = !same_period(&created, &now, level);
    assert!(r == expect);
    kani::cover!(r && created.y != now.y, "rotation across a year boundary");
    kani::cover!(r && created.y == now.y && created.mo != now.mo && created.d == now.d, "same day number, other month");
    kani::cover!(!r, "no rotation");
    kani::cover!(level == 3 || (!r && created.s != now.s), "no rotation although instants differ (n/a for seconds)");
    kani::cover!(level < 3 || r || created.s == now.s, "second level reached");
    kani::cover!(r && created.mo == 2 && created.d == 29, "leap day");
    kani::cover!(off != 0 && created_at.naive_utc().date() != created_at.naive_local().date(), "UTC date differs from local date");
}

// @verif prop=C09 tier=quick timeout=300 bounds=4-year-window(seed),6-offsets,now>=created
// Age::Day: real kernel == (local day index of created_at != local day index of now), clock stubbed.
#[kani::proof]
#[kani::stub(verif_support::reexp::catch_unwind, verif_support::stub_cu)]
#[kani::stub(chrono::Local::now, stub_now)]
fn c09_kernel_day() {
    c09_kernel(Age::Day, 0);
}
// @verif prop=C09 tier=quick timeout=300 bounds=4-year-window(seed),6-offsets,now>=created
// Age::Hour: real kernel == (local hour index differs).
#[kani::proof]
#[kani::stub(verif_support::reexp::catch_unwind, verif_support::stub_cu)]
#[kani::stub(chrono::Local::now, stub_now)]
fn c09_kernel_hour() {
    c09_kernel(Age::Hour, 1);
}
// @verif prop=C09 tier=quick timeout=300 bounds=4-year-window(seed),6-offsets,now>=created
// Age::Minute: real kernel == (local minute index differs).
#[kani::proof]
#[kani::stub(verif_support::reexp::catch_unwind, verif_support::stub_cu)]
#[kani::stub(chrono::Local::now, stub_now)]
fn c09_kernel_minute() {
    c09_kernel(Age::Minute, 2);
}
// @verif prop=C09 tier=quick timeout=300 bounds=4-year-window(seed),6-offsets,now>=created
// Age::Second: real kernel == (local second differs).
#[kani::proof]
#[kani::stub(verif_support::reexp::catch_unwind, verif_support::stub_cu)]
#[kani::stub(chrono::Local::now, stub_now)]
fn c09_kernel_second() {
    c09_kernel(Age::Second, 3);
}

// ------------------------------------------------------------------------------------------------
// @verif prop=C08 tier=quick timeout=120 bounds=all-u64
// For all u64 max/cur: rotation_necessary() of a Size roll state == (cur > max); AgeOrSize with the age part inactive (same period) decides identically.
#[kani::proof]
#[kani::stub(verif_support::reexp::catch_unwind, verif_support::stub_cu)]
#[kani::stub(chrono::Local::now, stub_now)]
fn c08_size_kernel() {
    vs::cell_set(0, 0);
    let max_size: u64 = kani::any();
    let current_size: u64 = kani::any();
    let rs = RollState::Size { max_size, current_size };
    assert!(rs.rotation_necessary() == (current_size > max_size));
    assert!(RollState::size_rotation_necessary(max_size, current_size) == (current_size > max_size));
    // age part inactive: created_at and now in the same second
    let i = vs::Instant { y: 2024, mo: 2, d: 29, h: 23, mi: 59, s: 59, off: 3600 };
    vs::clock_push(i);
    let rs2 = RollState::AgeOrSize { age: Age::Second, created_at: dt_of(&i), max_size, current_size };
    assert!(rs2.rotation_necessary() == (current_size > max_size));
    kani::cover!(current_size == max_size, "at limit");
    kani::cover!(max_size < u64::MAX && current_size == max_size + 1, "just above");
    kani::cover!(max_size == 0 && current_size == 0, "N = 0, empty file");
}

// @verif prop=C08 tier=quick timeout=120 bounds=cur+add<=u64::MAX
// increase_size adds exactly `add` for Size and AgeOrSize (nothing for Age); reset_size_and_date sets 0. No overflow panic for sums within u64.
#[kani::proof]
#[kani::stub(verif_support::reexp::catch_unwind, verif_support::stub_cu)]
#[kani::stub(chrono::Local::now, stub_now)]
#[kani::stub(get_creation_timestamp, stub_creation_ts)]
fn c08_size_accounting() {
    vs::cell_set(0, 0);
    let max_size: u64 = kani::any();
    let cur: u64 = kani::any();
    let add: u64 = kani::any();
    kani::assume(cur <= u64::MAX - add);
    let mut rs = RollState::Size { max_size, current_size: cur };
    rs.increase_size(add);
    match rs {
        RollState::Size { max_size: m, current_size: c } => assert!(m == max_size && c == cur + add),
        _ => unreachable!(),
    }
    rs.reset_size_and_date(Path::new("x"));
    match rs {
        RollState::Size { max_size: m, current_size: c } => assert!(m == max_size && c == 0),
        _ => unreachable!(),
    }
    let i = vs::Instant { y: 2024, mo: 2, d: 29, h: 23, mi: 59, s: 59, off: 0 };
    let mut rs2 = RollState::AgeOrSize { age: Age::Day, created_at: dt_of(&i), max_size, current_size: cur };
    rs2.increase_size(add);
    match rs2 {
        RollState::AgeOrSize { current_size: c, max_size: m, .. } => assert!(m == max_size && c == cur + add),
        _ => unreachable!(),
    }
    vs::clock_push(i);
    rs2.reset_size_and_date(Path::new("x"));
    match rs2 {
        RollState::AgeOrSize { current_size: c, max_size: m, .. } => assert!(m == max_size && c == 0),
        _ => unreachable!(),
    }
    kani::cover!(add == 0, "empty record");
    kani::cover!(cur > max_size && add > 0, "write into an over-limit file (after failed rotation)");
}
// model of get_creation_timestamp: birth instant of the file = next clock value
fn stub_creation_ts(_p: &Path) -> DateTime<Local> {
    stub_now()
}
