// Harnesses that are children of `flexi_logger` (the log::Log implementation).
use super::*;
use crate::filter::LogLineWriter;
use crate::log_specification::verif_harness::{any_filter, any_level, mk_spec};
use crate::{FlexiLoggerError, ModuleFilter};
use log::{Level, LevelFilter, Log};
use verif_support as vs;

// cells: 0 = calls to writer A, 1 = calls to writer B, 2 = calls to the primary writer,
//        3 = eprint_msg calls, 4 = eprint_err calls, 5 = filter calls,
//        6..8 = second-of-minute seen by A / B / primary (+1; 0 = not seen)
//        9 = ceiling of A, 10 = ceiling of B
const C_A: usize = 0;
const C_B: usize = 1;
const C_P: usize = 2;
const C_MSG: usize = 3;
const C_ERR: usize = 4;
const C_FILTER: usize = 5;

fn stub_eprint_msg(_c: ErrorCode, _m: &str) {
    vs::cell_inc(C_MSG);
}
fn stub_eprint_err(_c: ErrorCode, _m: &str, _e: &dyn std::error::Error) {
    vs::cell_inc(C_ERR);
}
fn stub_now() -> chrono::DateTime<chrono::Local> {
    let i = vs::clock_next();
    let fo = chrono::FixedOffset::east_opt(i.off).unwrap();
    let ndt = chrono::NaiveDate::from_ymd_opt(i.y, i.mo, i.d).unwrap().and_hms_opt(i.h, i.mi, i.s).unwrap();
    chrono::DateTime::from_naive_utc_and_offset(ndt - fo, fo)
}
// formatting of error texts is not the subject of these harnesses
fn stub_format(_a: std::fmt::Arguments<'_>) -> String {
    String::new()
}

fn filter_of(r: u64) -> LevelFilter {
    match r {
        0 => LevelFilter::Off,
        1 => LevelFilter::Error,
        2 => LevelFilter::Warn,
        3 => LevelFilter::Info,
        4 => LevelFilter::Debug,
        _ => LevelFilter::Trace,
    }
}
fn frank(f: LevelFilter) -> u64 {
    f as usize as u64
}
fn lrank(l: Level) -> u64 {
    l as usize as u64
}

// Recording additional writer; `id` selects its cells.
struct Rec {
    id: usize,
}
impl LogWriter for Rec {
    fn write(&self, now: &mut DeferredNow, _record: &log::Record) -> std::io::Result<()> {
        use chrono::Timelike;
        vs::cell_inc(self.id);
        let s = now.now().second();
        vs::cell_set(6 + self.id, s as u64 + 1);
        Ok(())
    }
    fn flush(&self) -> std::io::Result<()> {
        Ok(())
    }
    fn max_log_level(&self) -> LevelFilter {
        filter_of(vs::cell_get(9 + self.id))
    }
}
struct RecFilter;
impl LogLineFilter for RecFilter {
    fn write(&self, _now: &mut DeferredNow, _record: &log::Record, _w: &dyn LogLineWriter) -> std::io::Result<()> {
        vs::cell_inc(C_FILTER);
        Ok(()) // the filter alone decides: it swallows the record
    }
}
fn dummy_format(_w: &mut dyn std::io::Write, _now: &mut DeferredNow, _r: &log::Record) -> std::io::Result<()> {
    Ok(())
}

fn mk_logger(spec: LogSpecification, n_writers: usize, with_filter: bool) -> FlexiLogger {
    let primary = PrimaryWriter::multi(
        crate::Duplicate::None,
        crate::Duplicate::None,
        false,
        dummy_format,
        dummy_format,
        None,
        None,
    );
    let mut others: HashMap<String, Box<dyn LogWriter>> = HashMap::new();
    if n_writers >= 1 {
        others.push_unique("A".to_string(), Box::new(Rec { id: C_A }));
    }
    if n_writers >= 2 {
        others.push_unique("B".to_string(), Box::new(Rec { id: C_B }));
    }
    FlexiLogger::new(
        Arc::new(RwLock::new(spec)),
        Arc::new(primary),
        Arc::new(others),
        if with_filter { Some(Box::new(RecFilter)) } else { None },
    )
}
fn any_spec_a() -> (LogSpecification, LevelFilter, Option<LevelFilter>) {
    // module "a" with sym level, optional default with sym level (sorted: named first)
    let la = any_filter();
    let has_default: bool = kani::any();
    let ld = any_filter();
    let mut v = Vec::with_capacity(2);
    v.push(ModuleFilter { module_name: Some("a".to_string()), level_filter: la });
    if has_default {
        v.push(ModuleFilter { module_name: None, level_filter: ld });
    }
    (mk_spec(v), la, if has_default { Some(ld) } else { None })
}
fn ref_enabled(level: Level, target: &str, la: LevelFilter, ld: Option<LevelFilter>) -> bool {
    let lf = if target.as_bytes().first() == Some(&b'a') { Some(la) } else { ld };
    match lf {
        Some(lf) => lrank(level) <= frank(lf),
        None => false,
    }
}


fn cut_write_buffered(_f: crate::FormatFunction, _now: &mut DeferredNow, _r: &log::Record, _w: &mut dyn std::io::Write) -> Result<(), std::io::Error> {
    unreachable!("VERIF-CUT util::write_buffered")
}
fn cut_flw_drop(_w: &mut crate::writers::FileLogWriter) {
    unreachable!("VERIF-CUT <FileLogWriter as Drop>::drop")
}
fn cut_flw_write(_w: &crate::writers::FileLogWriter, _now: &mut DeferredNow, _r: &log::Record) -> std::io::Result<()> {
    unreachable!("VERIF-CUT FileLogWriter::write")
}
// Common environment of the FlexiLogger harnesses: Multi primary writer without file writer and
// without duplication -> the other PrimaryWriter arms, the file writer and write_buffered are cut.
macro_rules! flx_harness {
    ($u:literal, fn $name:ident() $body:block) => {
        #[kani::proof]
        #[kani::unwind($u)]
        #[kani::stub(verif_support::reexp::catch_unwind, verif_support::stub_cu)]
        #[kani::stub(chrono::Local::now, stub_now)]
        #[kani::stub(crate::util::eprint_msg, stub_eprint_msg)]
        #[kani::stub(crate::util::eprint_err, stub_eprint_err)]
        #[kani::stub(std::fmt::format, stub_format)]
        #[kani::stub(std::hash::RandomState::new, verif_support::stub_random_state)]
        #[kani::stub(<crate::primary_writer::test_writer::TestWriter as crate::writers::LogWriter>::write, crate::primary_writer::verif_harness::cut_test_write)]
        #[kani::stub(<crate::primary_writer::std_writer::StdWriter as crate::writers::LogWriter>::write, crate::primary_writer::verif_harness::cut_std_write)]
        #[kani::stub(<crate::writers::FileLogWriter as crate::writers::LogWriter>::write, cut_flw_write)]
        #[kani::stub(crate::util::write_buffered, cut_write_buffered)]
        #[kani::stub(<crate::writers::FileLogWriter as std::ops::Drop>::drop, cut_flw_drop)]
        #[kani::stub(<crate::primary_writer::multi_writer::MultiWriter as crate::writers::LogWriter>::write, crate::primary_writer::verif_harness::rec_multi_write)]
        #[kani::stub(<crate::primary_writer::PrimaryWriter as crate::filter::LogLineWriter>::write, crate::primary_writer::verif_harness::cut_pw_llw_write)]
        fn $name() $body
    };
}

// Configuration (additional writer registered or not, user line filter or not, which entry point)
// is concrete per instance; specification, level and target bytes are symbolic. enabled() and
// log() are exercised by separate instances against the same reference: after one call the spec
// RwLock's state word is a merged (symbolic) value for CBMC and a second call explores the
// contended-lock paths of std (probed: > 10 GB).
fn plain_target_case<const L: usize>(first: u8, with_writer: bool, with_filter: bool, call_log: bool) {
    vs::link_all();
    vs::cell_set(9, 5);
    vs::cell_set(10, 5);
    let (spec, la, ld) = any_spec_a();
    let logger = mk_logger(spec, if with_writer { 1 } else { 0 }, with_filter);
    // first byte concrete (so that `starts_with('{')` folds and the brace path is not explored
    // with a symbolic guard - probed: does not finish), remaining bytes symbolic over {a, b, :}
    let mut tb: [u8; L] = kani::any();
    let mut i = 0;
    while i < L {
        kani::assume(tb[i] == b'a' || tb[i] == b'b' || tb[i] == b':');
        i += 1;
    }
    if L > 0 {
        tb[0] = first;
    }
    let target = vs::str_from(&tb);
    let level = any_level();
    let expect = ref_enabled(level, target, la, ld);
    if call_log {
        logger.log(&log::Record::builder().level(level).target(target).module_path(Some("zz")).args(format_args!("m")).build());
        let delivered = vs::cell_get(C_P) + vs::cell_get(C_FILTER);
        assert!(delivered == if expect { 1 } else { 0 });
        assert!(vs::cell_get(C_FILTER) == if expect && with_filter { 1 } else { 0 });
        assert!(vs::cell_get(C_A) == 0);
    } else {
        let md = log::Metadata::builder().level(level).target(target).build();
        assert!(logger.enabled(&md) == expect);
    }
    kani::cover!(expect, "enabled by the specification");
    kani::cover!(!expect && ld.is_none(), "no default: off");
    kani::cover!(!expect && ld.is_some(), "level filter too strict");
    std::mem::forget(logger);
}
macro_rules! plain_instance {
    ($name:ident, $l:literal, $first:expr, $w:expr, $f:expr, $log:expr) => {
        flx_harness! { 12,
        fn $name() {
            plain_target_case::<$l>($first, $w, $f, $log);
        }
        }
    };
}
// @verif prop=C02 tier=quick timeout=600 bounds=spec{a=L,[default=L]},empty-target,no-writer,no-filter,log()
// log() passes a plain-target record to the primary writer iff the reference (longest prefix, else default, else off) enables (level, target). Empty target.
plain_instance!(c02_log_plain_empty, 0, b'a', false, false, true);
// @verif prop=C02 tier=quick timeout=600 bounds=spec{a=L,[default=L]},targets"a?"-over{a,b,:},no-writer,log()
// Same for all 2-byte targets starting with 'a' (the specified module, exact and extended).
plain_instance!(c02_log_plain_a, 2, b'a', false, false, true);
// @verif prop=C02 tier=quick timeout=600 bounds=spec{a=L,[default=L]},targets"b?",additional-writer-registered,log()
// Same for all 2-byte targets starting with 'b' (unrelated module -> default), with an additional writer registered (must not receive plain-target records).
plain_instance!(c02_log_plain_b_writer, 2, b'b', true, false, true);
// @verif prop=C02 tier=quick timeout=600 bounds=spec{a=L,[default=L]},targets"a?",user-line-filter,log()
// With a user-supplied line filter the enabled record goes to the filter, which then alone decides; disabled records never reach it.
plain_instance!(c02_log_plain_a_filter, 2, b'a', false, true, true);
// @verif prop=C02 tier=quick timeout=600 bounds=spec{a=L,[default=L]},targets"a?",enabled()
// enabled() == reference for plain targets, i.e. never false for a record log() passes on (same reference as the log() instances).
plain_instance!(c02_enabled_plain_a, 2, b'a', false, false, false);
// @verif prop=C02 tier=quick timeout=600 bounds=spec{a=L,[default=L]},targets":?",additional-writer-registered,enabled()
// enabled() == reference for plain targets when an additional writer is registered.
plain_instance!(c02_enabled_plain_colon_writer, 2, b':', true, false, false);

// ------------------------------------------------------------------------------------------------
// Brace targets: one harness instance per concrete token list (the list text is concrete so that
// split/compare run on constants); writer ceilings, specification, level and module path are
// symbolic. want = occurrences of [A, B, _Default, unknown names].
fn brace_case(target: &str, want: [u64; 4]) {
    vs::link_all();
    let ca: u64 = kani::any();
    let cb: u64 = kani::any();
    kani::assume(ca <= 5 && cb <= 5);
    vs::cell_set(9, ca);
    vs::cell_set(10, cb);
    let (spec, la, ld) = any_spec_a();
    let logger = mk_logger(spec, 2, false);
    let level = any_level();
    let with_mp: bool = kani::any();
    let mp_a: bool = kani::any();
    let module_path: Option<&str> = if with_mp { Some(if mp_a { "ab" } else { "b" }) } else { None };
    // distinct clock values: a second read of the clock would be visible
    vs::clock_push(vs::Instant { y: 2024, mo: 5, d: 5, h: 1, mi: 1, s: 11, off: 0 });
    vs::clock_push(vs::Instant { y: 2024, mo: 5, d: 5, h: 1, mi: 1, s: 12, off: 0 });
    vs::clock_push(vs::Instant { y: 2024, mo: 5, d: 5, h: 1, mi: 1, s: 13, off: 0 });
    logger.log(&log::Record::builder().level(level).target(target).module_path(module_path).args(format_args!("m")).build());
    assert!(vs::cell_get(C_A) == want[0]);
    assert!(vs::cell_get(C_B) == want[1]);
    assert!(vs::cell_get(C_MSG) == want[3]);
    let eff_target = module_path.unwrap_or("");
    let dflt = want[2] > 0 && ref_enabled(level, eff_target, la, ld);
    assert!(vs::cell_get(C_P) == if dflt { 1 } else { 0 });
    // one timestamp for all outputs of the record (first clock value: second 11)
    let (sa, sb, sp) = (vs::cell_get(6), vs::cell_get(7), vs::cell_get(8));
    assert!(sa == 0 || sa == 12);
    assert!(sb == 0 || sb == 12);
    assert!(sp == 0 || sp == 12);
    kani::cover!(want[2] == 0 || dflt, "default channel reached (if listed)");
    kani::cover!(want[2] == 0 || !dflt, "default channel suppressed by the spec (if listed)");
    kani::cover!(lrank(level) > ca, "level above A's ceiling (ceiling is the writer's own business)");
    std::mem::forget(logger);
}
macro_rules! brace_instance {
    ($name:ident, $target:expr, $want:expr) => {
        flx_harness! { 12,
        fn $name() {
            brace_case($target, $want);
        }
        }
    };
}
// @verif prop=C13 tier=quick timeout=600 bounds=target{A},ceilings/spec/level/module-path-symbolic
// Brace target {A}: exactly one call to writer A, none to B, none to the default channel, whatever the spec.
brace_instance!(c13_brace_a, "{A}", [1, 0, 0, 0]);
// @verif prop=C13 tier=quick timeout=600 bounds=target{_Default},ceilings/spec/level/module-path-symbolic
// {_Default}: default channel iff the spec enables (level, module path); no additional writer.
brace_instance!(c13_brace_default, "{_Default}", [0, 0, 1, 0]);
// @verif prop=C13 tier=quick timeout=600 bounds=target{X},ceilings/spec/level/module-path-symbolic
// {X} (unknown): one report through the error channel, nothing delivered.
brace_instance!(c13_brace_unknown, "{X}", [0, 0, 0, 1]);
// @verif prop=C13 tier=quick timeout=600 bounds=target{A,B}
// {A,B}: one call each.
brace_instance!(c13_brace_a_b, "{A,B}", [1, 1, 0, 0]);
// @verif prop=C13 tier=quick timeout=600 bounds=target{B,_Default}
// {B,_Default}: B once, default channel iff spec enables.
brace_instance!(c13_brace_b_default, "{B,_Default}", [0, 1, 1, 0]);
// @verif prop=C13 tier=quick timeout=600 bounds=target{_Default,A}
// {_Default,A}: order does not matter.
brace_instance!(c13_brace_default_a, "{_Default,A}", [1, 0, 1, 0]);
// @verif prop=C13 tier=quick timeout=600 bounds=target{X,A}
// {X,A}: unknown name reported, delivery to A undisturbed.
brace_instance!(c13_brace_unknown_a, "{X,A}", [1, 0, 0, 1]);
// @verif prop=C13 tier=probe timeout=900 bounds=target{A,X,_Default}
// NOT REGISTERED (false alarm of the encoding, session 3): on the unchanged tree CBMC reports "rust_dealloc must be called on an object whose allocated size matches its layout" for the drop of the String that the (stubbed, capacity-0) format! of the "bad writer spec" message returns - a free that safe Rust cannot get wrong (the crate is #![forbid(unsafe_code)], the String is std's own) and that the two-token instances {X,A} / {B,A,B} of the same code pass. Same family as the C12 alarm (DESIGN.md 6 vii): spurious allocation checks once three list tokens merge the state. Removed from the thorough tier rather than silenced; the clause "unknown names do not disturb delivery" stays decided by c13_brace_unknown and c13_brace_unknown_a.
// Three tokens: {A,X,_Default}.
brace_instance!(c13_brace_a_unknown_default, "{A,X,_Default}", [1, 0, 1, 1]);
// @verif prop=C13 tier=thorough timeout=900 bounds=target{B,A,B}
// A name listed twice is delivered once per occurrence (documented reading: per occurrence).
brace_instance!(c13_brace_b_a_b, "{B,A,B}", [1, 2, 0, 0]);

// C10: adversarial targets. Symbolic target *bytes* make every downstream slice (ptr, len)
// symbolic and did not finish (probed: > 9 GB after 4 min even for 1 byte), so the target text is
// concrete per instance - the menu below holds the shapes named in the property (lone, empty and
// unbalanced braces, multi-byte characters next to the braces, separators only) - while the
// specification and the level stay symbolic.
fn target_no_panic_case(target: &str, call_log: bool) {
    vs::link_all();
    vs::cell_set(9, 5);
    vs::cell_set(10, 5);
    let (spec, _la, _ld) = any_spec_a();
    let logger = mk_logger(spec, 1, false);
    let level = any_level();
    if call_log {
        logger.log(&log::Record::builder().level(level).target(target).module_path(Some("ab")).args(format_args!("m")).build());
    } else {
        let md = log::Metadata::builder().level(level).target(target).build();
        let _ = logger.enabled(&md);
    }
    kani::cover!(!call_log || vs::cell_get(C_MSG) + vs::cell_get(C_A) + vs::cell_get(C_P) > 0, "something was delivered or reported");
    std::mem::forget(logger);
}
macro_rules! target_instance {
    ($name:ident, $target:expr) => {
        flx_harness! { 12,
        fn $name() {
            target_no_panic_case($target, true);
        }
        }
    };
    ($name:ident, $target:expr, enabled) => {
        flx_harness! { 12,
        fn $name() {
            target_no_panic_case($target, false);
        }
        }
    };
}
// @verif prop=C10 tier=probe timeout=600 replay=target_no_panic bounds=target"{",spec/level-symbolic,one-additional-writer
// BUDGET GATE: did not finish on the unchanged tree (CBMC > 12 GB after 9 min); kept as a probe, not registered.
// enabled()/log() do not panic for the lone opening brace.
target_instance!(c10_target_lone_open, "{");
// @verif prop=C10 tier=probe timeout=600 replay=target_no_panic bounds=target"{",enabled()
// BUDGET GATE: did not finish on the unchanged tree (CBMC > 12 GB after 9 min); kept as a probe, not registered.
// enabled() does not panic for the lone opening brace.
target_instance!(c10_target_lone_open_enabled, "{", enabled);
// @verif prop=C10 tier=probe timeout=600 replay=target_no_panic bounds=target"{A\u{e9}",enabled()
// BUDGET GATE: did not finish on the unchanged tree (CBMC > 12 GB after 9 min); kept as a probe, not registered.
// enabled() does not panic for an unbalanced list ending in a multi-byte character.
target_instance!(c10_target_unbalanced_multibyte_enabled, "{A\u{e9}", enabled);
// @verif prop=C10 tier=quick timeout=600 replay=target_no_panic bounds=target"{}"
// ... for the empty brace pair.
target_instance!(c10_target_empty_braces, "{}");
// @verif prop=C10 tier=quick timeout=600 replay=target_no_panic bounds=target"{\u{e9}"
// ... for a multi-byte character directly after the brace, no closing brace (old code cut inside the character).
target_instance!(c10_target_open_multibyte, "{\u{e9}");
// @verif prop=C10 tier=quick timeout=600 replay=target_no_panic bounds=target"{A\u{e9}"
// ... for an unbalanced list ending in a multi-byte character.
target_instance!(c10_target_unbalanced_multibyte, "{A\u{e9}");
// @verif prop=C10 tier=quick timeout=600 replay=target_no_panic bounds=target"{\u{e9}}"
// ... for a multi-byte writer name in braces.
target_instance!(c10_target_multibyte_name, "{\u{e9}}");
// @verif prop=C10 tier=quick timeout=600 replay=target_no_panic bounds=target"{,}"
// ... for separators only.
target_instance!(c10_target_commas_only, "{,}");
// @verif prop=C10 tier=quick timeout=600 replay=target_no_panic bounds=target"{A"
// ... for a missing closing brace.
target_instance!(c10_target_unbalanced, "{A");
// @verif prop=C10 tier=quick timeout=600 replay=target_no_panic bounds=target"}"
// ... for a lone closing brace (plain target).
target_instance!(c10_target_lone_close, "}");
// @verif prop=C10 tier=quick timeout=600 replay=target_no_panic bounds=target""
// ... for the empty target.
target_instance!(c10_target_empty, "");

// @verif prop=C02,C13 tier=quick timeout=900 bounds=target-{A},writer-A-with-symbolic-ceiling,all-levels replay=enabled_brace_ceiling
// enabled() never answers false for a brace-target record that log() hands to a writer: for target {A}, enabled() must be true whenever the level is at or below A's ceiling.
flx_harness! { 12,
fn c02_enabled_brace_ceiling() {
    vs::link_all();
    let ca: u64 = kani::any();
    kani::assume(ca <= 5);
    vs::cell_set(9, ca);
    vs::cell_set(10, 0);
    // spec switched off entirely: only the writer's ceiling can enable
    let logger = mk_logger(mk_spec(Vec::new()), 1, false);
    let level = any_level();
    let md = log::Metadata::builder().level(level).target("{A}").build();
    let en = logger.enabled(&md);
    if lrank(level) <= ca {
        assert!(en);
    }
    kani::cover!(lrank(level) == ca, "record exactly at the writer's ceiling");
    std::mem::forget(logger);
}
}

fn lone_probe(target: &str, call_log: bool, empty_spec: bool, nw: usize) {
    vs::link_all();
    vs::cell_set(9, 5);
    vs::cell_set(10, 5);
    let spec = if empty_spec { mk_spec(Vec::new()) } else { any_spec_a().0 };
    let logger = mk_logger(spec, nw, false);
    let level = any_level();
    if call_log {
        logger.log(&log::Record::builder().level(level).target(target).module_path(Some("ab")).args(format_args!("m")).build());
    } else {
        let md = log::Metadata::builder().level(level).target(target).build();
        let _ = logger.enabled(&md);
    }
    std::mem::forget(logger);
}
// @verif prop=C10 tier=probe timeout=200
flx_harness! { 12,
fn probe_l1() { lone_probe("{", true, true, 1); }
}
// @verif prop=C10 tier=probe timeout=200
flx_harness! { 12,
fn probe_l2() { lone_probe("{", false, true, 1); }
}
// @verif prop=C10 tier=probe timeout=200
flx_harness! { 12,
fn probe_l3() { lone_probe("{x", true, false, 1); }
}
// @verif prop=C10 tier=probe timeout=200
flx_harness! { 12,
fn probe_l4() { lone_probe("{A\u{e9}", false, true, 1); }
}
// @verif prop=C10 tier=probe timeout=200
flx_harness! { 12,
fn probe_l5() { lone_probe("{", true, false, 2); }
}

fn brace_probe(nw: usize, sym_ceil: bool, sym_mp: bool, clock: bool) {
    vs::link_all();
    if sym_ceil {
        let ca: u64 = kani::any();
        kani::assume(ca <= 5);
        vs::cell_set(9, ca);
    } else {
        vs::cell_set(9, 5);
    }
    vs::cell_set(10, 5);
    let (spec, la, ld) = any_spec_a();
    let logger = mk_logger(spec, nw, false);
    let level = any_level();
    let module_path: Option<&str> = if sym_mp {
        let with_mp: bool = kani::any();
        if with_mp { Some("ab") } else { None }
    } else {
        Some("zz")
    };
    if clock {
        vs::clock_push(vs::Instant { y: 2024, mo: 5, d: 5, h: 1, mi: 1, s: 11, off: 0 });
        vs::clock_push(vs::Instant { y: 2024, mo: 5, d: 5, h: 1, mi: 1, s: 12, off: 0 });
    }
    logger.log(&log::Record::builder().level(level).target("{A}").module_path(module_path).args(format_args!("m")).build());
    assert!(vs::cell_get(C_A) == 1);
    std::mem::forget(logger);
}
// @verif prop=C13 tier=probe timeout=240
flx_harness! { 12,
fn probe_b1() { brace_probe(2, false, false, false); }
}
// @verif prop=C13 tier=probe timeout=240
flx_harness! { 12,
fn probe_b2() { brace_probe(1, true, false, false); }
}
// @verif prop=C13 tier=probe timeout=240
flx_harness! { 12,
fn probe_b3() { brace_probe(1, false, true, false); }
}
// @verif prop=C13 tier=probe timeout=240
flx_harness! { 12,
fn probe_b4() { brace_probe(1, false, false, true); }
}

// @verif prop=C02 tier=probe timeout=300
flx_harness! { 12,
fn probe_log_nowriters() {
    vs::link_all();
    vs::cell_set(9, 5);
    let (spec, la, ld) = any_spec_a();
    let logger = mk_logger(spec, 0, false);
    let level = any_level();
    let target = "ab";
    let expect = ref_enabled(level, target, la, ld);
    logger.log(&log::Record::builder().level(level).target(target).module_path(Some("zz")).args(format_args!("m")).build());
    assert!(vs::cell_get(C_P) == if expect { 1 } else { 0 });
    std::mem::forget(logger);
}
}
// @verif prop=C02 tier=probe timeout=300
flx_harness! { 12,
fn probe_log_brace() {
    vs::link_all();
    vs::cell_set(9, 5);
    let (spec, la, ld) = any_spec_a();
    let logger = mk_logger(spec, 1, false);
    let level = any_level();
    let target = "{A}";
    logger.log(&log::Record::builder().level(level).target(target).module_path(Some("zz")).args(format_args!("m")).build());
    assert!(vs::cell_get(C_A) == 1);
    std::mem::forget(logger);
}
}

// ------------------------------------------------------------------------------------------------
// C02, text-filter clause (feature `textfilter`). regex::Regex is replaced by the opaque-identity
// model of the support crate (`rx`): `is_match` is an uninterpreted predicate whose answer for the
// logged message is a symbolic boolean and whose answer for any *other* text is the opposite, so
// that both "filter not consulted" and "filter asked about the wrong text" change the outcome.
// `std::fmt::format` is NOT stubbed here: rendering the message (`record.args().to_string()`) is
// part of what is decided; the message is produced by a Display implementation, so that
// `Arguments::as_str()` is None as for every formatted message.
#[cfg(feature = "textfilter")]
macro_rules! flx_harness_fmt {
    ($u:literal, fn $name:ident() $body:block) => {
        #[kani::proof]
        #[kani::unwind($u)]
        #[kani::stub(verif_support::reexp::catch_unwind, verif_support::stub_cu)]
        #[kani::stub(chrono::Local::now, stub_now)]
        #[kani::stub(crate::util::eprint_msg, stub_eprint_msg)]
        #[kani::stub(crate::util::eprint_err, stub_eprint_err)]
        #[kani::stub(std::hash::RandomState::new, verif_support::stub_random_state)]
        #[kani::stub(<crate::primary_writer::test_writer::TestWriter as crate::writers::LogWriter>::write, crate::primary_writer::verif_harness::cut_test_write)]
        #[kani::stub(<crate::primary_writer::std_writer::StdWriter as crate::writers::LogWriter>::write, crate::primary_writer::verif_harness::cut_std_write)]
        #[kani::stub(<crate::writers::FileLogWriter as crate::writers::LogWriter>::write, cut_flw_write)]
        #[kani::stub(crate::util::write_buffered, cut_write_buffered)]
        #[kani::stub(<crate::writers::FileLogWriter as std::ops::Drop>::drop, cut_flw_drop)]
        #[kani::stub(<crate::primary_writer::multi_writer::MultiWriter as crate::writers::LogWriter>::write, crate::primary_writer::verif_harness::rec_multi_write)]
        #[kani::stub(<crate::primary_writer::PrimaryWriter as crate::filter::LogLineWriter>::write, crate::primary_writer::verif_harness::cut_pw_llw_write)]
        fn $name() $body
    };
}
#[cfg(feature = "textfilter")]
struct Msg;
#[cfg(feature = "textfilter")]
impl std::fmt::Display for Msg {
    fn fmt(&self, f: &mut std::fmt::Formatter<'_>) -> std::fmt::Result {
        f.write_str("xyz")
    }
}
#[cfg(feature = "textfilter")]
fn textfilter_case(tf: u8, target: &str, with_filter: bool) {
    use crate::log_specification::verif_harness::mk_spec_tf;
    vs::link_all();
    vs::cell_set(9, 5);
    vs::cell_set(10, 5);
    let la = any_filter();
    let has_default: bool = kani::any();
    let ld = any_filter();
    let mut v = Vec::with_capacity(2);
    v.push(ModuleFilter { module_name: Some("a".to_string()), level_filter: la });
    if has_default {
        v.push(ModuleFilter { module_name: None, level_filter: ld });
    }
    let ld = if has_default { Some(ld) } else { None };
    let logger = mk_logger(mk_spec_tf(v, tf), 0, with_filter);
    let answer: bool = kani::any();
    vs::rx::set_answer(1, answer);
    vs::rx::set_answer(2, !answer); // a different pattern decides differently
    vs::rx::set_message(3, b'x');
    let level = any_level();
    let by_spec = ref_enabled(level, target, la, ld);
    let expect = by_spec && (tf == 0 || answer);
    logger.log(&log::Record::builder().level(level).target(target).module_path(Some("zz")).args(format_args!("{}", Msg)).build());
    let delivered = vs::cell_get(C_P) + vs::cell_get(C_FILTER);
    assert!(delivered == if expect { 1 } else { 0 });
    assert!(vs::cell_get(C_FILTER) == if expect && with_filter { 1 } else { 0 });
    kani::cover!(by_spec && (tf == 0 || !answer), "enabled by the specification; if a text filter is set it suppresses the record");
    kani::cover!(by_spec && (tf == 0 || answer), "enabled by the specification; if a text filter is set it matches");
    kani::cover!(!by_spec, "disabled by the specification");
    std::mem::forget(logger);
}
// @verif prop=C02 tier=quick feat=textfilter timeout=900 bounds=spec{a=L,[default=L]}+text-filter(id1),target"ab",formatted-message,is_match-uninterpreted(symbolic-answer)
// With a text filter set, log() passes the record on iff the specification enables (level, target) AND the filter matches the rendered message (uninterpreted is_match with a symbolic answer for the message and the opposite answer for any other text).
#[cfg(feature = "textfilter")]
flx_harness_fmt! { 12,
fn c02_log_textfilter_set() {
    textfilter_case(1, "ab", false);
}
}
// @verif prop=C02 tier=quick feat=textfilter timeout=900 bounds=spec{a=L,[default=L]},no-text-filter,target"b",feature-on
// Without a text filter (feature compiled in) the specification alone decides; is_match answers are irrelevant.
#[cfg(feature = "textfilter")]
flx_harness_fmt! { 12,
fn c02_log_textfilter_none() {
    textfilter_case(0, "b", false);
}
}
// @verif prop=C02 tier=quick feat=textfilter timeout=900 bounds=spec+text-filter(id1),target"ab",user-line-filter
// Text filter and user line filter together: the line filter is reached iff spec and text filter both accept.
#[cfg(feature = "textfilter")]
flx_harness_fmt! { 12,
fn c02_log_textfilter_linefilter() {
    textfilter_case(1, "ab", true);
}
}

// ------------------------------------------------------------------------------------------------
// C19 (write failures at this level) is NOT decided: instances in which the primary writer or an
// additional writer returns Err gave no result in 400 s / 7 GB - after reporting, log() drops the
// io::Error, whose drop glue does not terminate (DESIGN.md 2). Worse, a recording writer that *can*
// return Err makes the error path live in every other harness of this file (it is a candidate of
// every `dyn LogWriter::write` call): the fault-injecting variants were removed again after they
// pushed all brace-target harnesses back to time-outs.
