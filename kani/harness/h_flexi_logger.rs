// Harnesses that are children of `flexi_logger` (the log::Log implementation).
use super::*;
use crate::filter::LogLineWriter;
use crate::log_specification::verif_harness::{any_filter, any_level, mk_spec};
use crate::{FlexiLoggerError, ModuleFilter};
use log::{Level, LevelFilter, Log};
use verif_support as vs;

// cells: 0 = calls to writer A, 1 = calls to writer B, 2 = calls to the primary writer,
//        3 = eprint_msg calls, 4 = eprint_err calls, 5 = filter calls,
//        6..8 = second-of-minute seen by A / B / primary (+1; 0 = not seen)
//        9 = ceiling of A, 10 = ceiling of B
const C_A: usize = 0;
const C_B: usize = 1;
const C_P: usize = 2;
const C_MSG: usize = 3;
const C_ERR: usize = 4;
const C_FILTER: usize = 5;

fn stub_eprint_msg(_c: ErrorCode, _m: &str) {
    vs::cell_inc(C_MSG);
}
fn stub_eprint_err(_c: ErrorCode, _m: &str, _e: &dyn std::error::Error) {
    vs::cell_inc(C_ERR);
}
fn stub_now() -> chrono::DateTime<chrono::Local> {
    let i = vs::clock_next();
    let fo = chrono::FixedOffset::east_opt(i.off).unwrap();
    let ndt = chrono::NaiveDate::from_ymd_opt(i.y, i.mo, i.d).unwrap().and_hms_opt(i.h, i.mi, i.s).unwrap();
    chrono::DateTime::from_naive_utc_and_offset(ndt - fo, fo)
}
// formatting of error texts is not the subject of these harnesses
fn stub_format(_a: std::fmt::Arguments<'_>) -> String {
    String::new()
}

fn filter_of(r: u64) -> LevelFilter {
    match r {
        0 => LevelFilter::Off,
        1 => LevelFilter::Error,
        2 => LevelFilter::Warn,
        3 => LevelFilter::Info,
        4 => LevelFilter::Debug,
        _ => LevelFilter::Trace,
    }
}
fn frank(f: LevelFilter) -> u64 {
    f as usize as u64
}
fn lrank(l: Level) -> u64 {
    l as usize as u64
}

// Recording additional writer; `id` selects its cells.
struct Rec {
    id: usize,
}
impl LogWriter for Rec {
    fn write(&self, now: &mut DeferredNow, _record: &log::Record) -> std::io::Result<()> {
        use chrono::Timelike;
        vs::cell_inc(self.id);
        let s = now.now().second();
        vs::cell_set(6 + self.id, s as u64 + 1);
        Ok(())
    }
    fn flush(&self) -> std::io::Result<()> {
        Ok(())
    }
    fn max_log_level(&self) -> LevelFilter {
        filter_of(vs::cell_get(9 + self.id))
    }
}
struct RecFilter;
impl LogLineFilter for RecFilter {
    fn write(&self, _now: &mut DeferredNow, _record: &log::Record, _w: &dyn LogLineWriter) -> std::io::Result<()> {
        vs::cell_inc(C_FILTER);
        Ok(()) // the filter alone decides: it swallows the record
    }
}
fn dummy_format(_w: &mut dyn std::io::Write, _now: &mut DeferredNow, _r: &log::Record) -> std::io::Result<()> {
    Ok(())
}

fn mk_logger(spec: LogSpecification, n_writers: usize, with_filter: bool) -> FlexiLogger {
    let primary = PrimaryWriter::multi(
        crate::Duplicate::None,
        crate::Duplicate::None,
        false,
        dummy_format,
        dummy_format,
        None,
        None,
    );
    let mut others: HashMap<String, Box<dyn LogWriter>> = HashMap::new();
    if n_writers >= 1 {
        others.insert("A".to_string(), Box::new(Rec { id: C_A }));
    }
    if n_writers >= 2 {
        others.insert("B".to_string(), Box::new(Rec { id: C_B }));
    }
    FlexiLogger::new(
        Arc::new(RwLock::new(spec)),
        Arc::new(primary),
        Arc::new(others),
        if with_filter { Some(Box::new(RecFilter)) } else { None },
    )
}
fn any_spec_a() -> (LogSpecification, LevelFilter, Option<LevelFilter>) {
    // module "a" with sym level, optional default with sym level (sorted: named first)
    let la = any_filter();
    let has_default: bool = kani::any();
    let ld = any_filter();
    let mut v = Vec::with_capacity(2);
    v.push(ModuleFilter { module_name: Some("a".to_string()), level_filter: la });
    if has_default {
        v.push(ModuleFilter { module_name: None, level_filter: ld });
    }
    (mk_spec(v), la, if has_default { Some(ld) } else { None })
}
fn ref_enabled(level: Level, target: &str, la: LevelFilter, ld: Option<LevelFilter>) -> bool {
    let lf = if target.as_bytes().first() == Some(&b'a') { Some(la) } else { ld };
    match lf {
        Some(lf) => lrank(level) <= frank(lf),
        None => false,
    }
}


fn cut_write_buffered(_f: crate::FormatFunction, _now: &mut DeferredNow, _r: &log::Record, _w: &mut dyn std::io::Write) -> Result<(), std::io::Error> {
    unreachable!("VERIF-CUT util::write_buffered")
}
fn cut_flw_write(_w: &crate::writers::FileLogWriter, _now: &mut DeferredNow, _r: &log::Record) -> std::io::Result<()> {
    unreachable!("VERIF-CUT FileLogWriter::write")
}
// Common environment of the FlexiLogger harnesses: Multi primary writer without file writer and
// without duplication -> the other PrimaryWriter arms, the file writer and write_buffered are cut.
macro_rules! flx_harness {
    ($(#[$m:meta])* fn $name:ident() $body:block) => {
        #[kani::proof]
        #[kani::unwind(12)]
        #[kani::stub(verif_support::reexp::catch_unwind, verif_support::stub_cu)]
        #[kani::stub(chrono::Local::now, stub_now)]
        #[kani::stub(crate::util::eprint_msg, stub_eprint_msg)]
        #[kani::stub(crate::util::eprint_err, stub_eprint_err)]
        #[kani::stub(std::fmt::format, stub_format)]
        #[kani::stub(std::hash::RandomState::new, verif_support::stub_random_state)]
        #[kani::stub(<crate::primary_writer::test_writer::TestWriter as crate::writers::LogWriter>::write, crate::primary_writer::verif_harness::cut_test_write)]
        #[kani::stub(<crate::primary_writer::std_writer::StdWriter as crate::writers::LogWriter>::write, crate::primary_writer::verif_harness::cut_std_write)]
        #[kani::stub(<crate::writers::FileLogWriter as crate::writers::LogWriter>::write, cut_flw_write)]
        #[kani::stub(crate::util::write_buffered, cut_write_buffered)]
        #[kani::stub(<crate::primary_writer::multi_writer::MultiWriter as crate::writers::LogWriter>::write, crate::primary_writer::verif_harness::rec_multi_write)]
        #[kani::stub(<crate::primary_writer::PrimaryWriter as crate::filter::LogLineWriter>::write, crate::primary_writer::verif_harness::cut_pw_llw_write)]
        $(#[$m])*
        fn $name() $body
    };
}

// @verif prop=C02 tier=quick timeout=600 bounds=spec{a=L,[default=L]},plain-target<=2-bytes-over{a,b,:},0..1-additional-writers,with/without-line-filter
// FlexiLogger::log passes a plain-target record to the primary writer (or to the user filter, which then alone decides) iff the reference enables (level, target); enabled() never answers false for a record that log() passes on.
flx_harness! {
fn c02_log_plain_target() {
    vs::link_all();
    vs::link_all();
    vs::cell_set(9, 5);
    vs::cell_set(10, 5);
    let (spec, la, ld) = any_spec_a();
    let with_filter: bool = kani::any();
    let with_writer: bool = kani::any();
    let logger = mk_logger(spec, if with_writer { 1 } else { 0 }, with_filter);
    let tb: [u8; 2] = kani::any();
    let tl: usize = kani::any();
    kani::assume(tl <= 2);
    kani::assume((tb[0] == b'a' || tb[0] == b'b' || tb[0] == b':') && (tb[1] == b'a' || tb[1] == b'b' || tb[1] == b':'));
    let target = std::str::from_utf8(&tb[..tl]).unwrap();
    let level = any_level();
    let expect = ref_enabled(level, target, la, ld);
    let md = log::Metadata::builder().level(level).target(target).build();
    let en = logger.enabled(&md);
    logger.log(&log::Record::builder().level(level).target(target).module_path(Some("zz")).args(format_args!("m")).build());
    let delivered = vs::cell_get(C_P) + vs::cell_get(C_FILTER);
    assert!(delivered == if expect { 1 } else { 0 });
    assert!(vs::cell_get(C_FILTER) == if expect && with_filter { 1 } else { 0 });
    assert!(vs::cell_get(C_A) == 0);
    assert!(en == expect);
    kani::cover!(expect && with_filter, "passed to the line filter");
    kani::cover!(!expect && ld.is_none(), "no default: off");
    kani::cover!(expect && tl == 0, "empty target uses default");
    std::mem::forget(logger);
}
}

// @verif prop=C02 tier=probe timeout=300
flx_harness! {
fn probe_log_nowriters() {
    vs::link_all();
    vs::cell_set(9, 5);
    let (spec, la, ld) = any_spec_a();
    let logger = mk_logger(spec, 0, false);
    let level = any_level();
    let target = "ab";
    let expect = ref_enabled(level, target, la, ld);
    logger.log(&log::Record::builder().level(level).target(target).module_path(Some("zz")).args(format_args!("m")).build());
    assert!(vs::cell_get(C_P) == if expect { 1 } else { 0 });
    std::mem::forget(logger);
}
}
// @verif prop=C02 tier=probe timeout=300
flx_harness! {
fn probe_log_brace() {
    vs::link_all();
    vs::cell_set(9, 5);
    let (spec, la, ld) = any_spec_a();
    let logger = mk_logger(spec, 1, false);
    let level = any_level();
    let target = "{A}";
    logger.log(&log::Record::builder().level(level).target(target).module_path(Some("zz")).args(format_args!("m")).build());
    assert!(vs::cell_get(C_A) == 1);
    std::mem::forget(logger);
}
}
