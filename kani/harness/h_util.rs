// Harnesses that are children of `util`.
use super::*;
use verif_support as vs;

struct Sink;
impl Write for Sink {
    fn write(&mut self, b: &[u8]) -> std::io::Result<usize> {
        vs::cell_inc(0);
        let mut i = 0;
        while i < b.len() {
            vs::ev_push(b[i] as u32);
            i += 1;
        }
        Ok(b.len())
    }
    fn flush(&mut self) -> std::io::Result<()> {
        Ok(())
    }
}
fn fmt_two(w: &mut dyn Write, _now: &mut DeferredNow, _r: &Record) -> std::io::Result<()> {
    let b = [vs::cell_get(5) as u8, vs::cell_get(6) as u8];
    w.write_all(&b)
}
fn stub_eprint_err(_c: ErrorCode, _m: &str, _e: &dyn std::error::Error) {
    vs::cell_inc(4);
}
// @verif prop=C20 tier=probe timeout=600 bounds=write_buffered(stdout/stderr-path)
// BUDGET GATE: unwinding assertion at unwind 8, out of memory at unwind 16 (io::Error result handling via inspect_err); not registered.,format-output-2-symbolic-bytes,2-records
// util::write_buffered (the framing used for stdout / stderr and the duplicates): each record reaches the writer in exactly one write call as format output + one line feed, and the buffer is empty for the next record.
#[kani::proof]
#[kani::unwind(16)]
#[kani::stub(verif_support::reexp::catch_unwind, verif_support::stub_cu)]
#[kani::stub(buffer_with, verif_support::buffer_with_model)]
#[kani::stub(eprint_err, stub_eprint_err)]
fn c20_write_buffered_framing() {
    vs::link_all();
    let b0: u8 = kani::any();
    let b1: u8 = kani::any();
    vs::cell_set(5, b0 as u64);
    vs::cell_set(6, b1 as u64);
    let mut sink = Sink;
    let mut now = DeferredNow::new();
    let r = log::Record::builder().level(log::Level::Info).target("t").args(format_args!("m")).build();
    let r1 = write_buffered(fmt_two, &mut now, &r, &mut sink);
    std::mem::forget(r1);
    assert!(vs::cell_get(0) == 1 && vs::ev_len() == 3);
    assert!(vs::ev_get(0) == b0 as u32 && vs::ev_get(1) == b1 as u32 && vs::ev_get(2) == 10);
    let r2 = write_buffered(fmt_two, &mut now, &r, &mut sink);
    std::mem::forget(r2);
    assert!(vs::cell_get(0) == 2 && vs::ev_len() == 6);
    assert!(vs::ev_get(3) == b0 as u32 && vs::ev_get(5) == 10);
    kani::cover!(b0 == 10, "format output starts with a line feed");
}
