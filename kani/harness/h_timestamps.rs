// Harnesses that are children of `writers::file_log_writer::state::timestamps`.
use super::*;
use verif_support as vs;

fn spec_b() -> FileSpec {
    FileSpec::default().directory("d").basename("b").suffix("l").suppress_timestamp()
}
// @verif prop=C10,C06 tier=quick timeout=600 replay=ts_listing_short_name bounds=path"d/b_r12.l"(short-infix-file-that-the-listing-filter-of-latest_timestamp_file-lets-through)
// ts_infix_from_path must not panic on a family-prefixed file whose name is shorter than a timestamp infix (latest_timestamp_file lists with the *numbers* filter, so b_r12.l reaches it).
#[kani::proof]
#[kani::unwind(24)]
#[kani::stub(verif_support::reexp::catch_unwind, verif_support::stub_cu)]
#[kani::stub(crate::parameters::file_spec::TimestampCfg::get_timestamp, crate::parameters::file_spec::verif_harness::cut_get_timestamp)]
fn c10_ts_infix_short_name() {
    vs::link_all();
    let spec = spec_b();
    let p = PathBuf::from("d/b_r12.l");
    let s = ts_infix_from_path(&p, &spec);
    // whatever it extracts from such a name, it is not a timestamp
    assert!(s.len() <= 20);
    kani::cover!(true, "executed");
    std::mem::forget(s);
    std::mem::forget(spec);
}
// @verif prop=C06,C16 tier=quick timeout=600 bounds=path"d/b_r2024-02-29_23-59-58.l"
// ts_infix_from_path extracts exactly the 20-byte standard timestamp infix of a family member.
#[kani::proof]
#[kani::unwind(40)]
#[kani::stub(verif_support::reexp::catch_unwind, verif_support::stub_cu)]
#[kani::stub(crate::parameters::file_spec::TimestampCfg::get_timestamp, crate::parameters::file_spec::verif_harness::cut_get_timestamp)]
fn c06_ts_infix_member() {
    vs::link_all();
    let spec = spec_b();
    let p = PathBuf::from("d/b_r2024-02-29_23-59-58.l");
    let s = ts_infix_from_path(&p, &spec);
    assert!(s.as_bytes() == b"r2024-02-29_23-59-58");
    kani::cover!(true, "executed");
    std::mem::forget(s);
    std::mem::forget(spec);
}
