// Harnesses that are children of `logger_handle` (LoggerHandle / WritersHandle internals).
use super::*;
use crate::log_specification::verif_harness::{any_filter, mk_spec, mk_spec_tf, tf_of};
use crate::ModuleFilter;
use log::{Level, LevelFilter};
use verif_support as vs;

fn frank(f: LevelFilter) -> u64 {
    f as usize as u64
}
fn filter_of(r: u64) -> LevelFilter {
    match r {
        0 => LevelFilter::Off,
        1 => LevelFilter::Error,
        2 => LevelFilter::Warn,
        3 => LevelFilter::Info,
        4 => LevelFilter::Debug,
        _ => LevelFilter::Trace,
    }
}
const LEVELS: [Level; 5] = [Level::Error, Level::Warn, Level::Info, Level::Debug, Level::Trace];

// spec "default = d, a = a" as the crate would hold it (sorted: named first)
fn spec_of(a: u64, d: u64) -> LogSpecification {
    let mut v = Vec::with_capacity(2);
    v.push(ModuleFilter { module_name: Some("a".to_string()), level_filter: filter_of(a) });
    v.push(ModuleFilter { module_name: None, level_filter: filter_of(d) });
    mk_spec(v)
}
// the same with text filter t (0 = none; else pattern id t of the regex model; always 0 without the feature)
fn spec_of3(a: u64, d: u64, t: u8) -> LogSpecification {
    let mut v = Vec::with_capacity(2);
    v.push(ModuleFilter { module_name: Some("a".to_string()), level_filter: filter_of(a) });
    v.push(ModuleFilter { module_name: None, level_filter: filter_of(d) });
    mk_spec_tf(v, t)
}
fn any_tf() -> u8 {
    #[cfg(feature = "textfilter")]
    {
        let t: u8 = kani::any();
        kani::assume(t <= 2);
        return t;
    }
    #[allow(unreachable_code)]
    0
}
fn observed_tf(h: &LoggerHandle) -> u8 {
    let g = h.writers_handle.spec.read().unwrap();
    tf_of(&g)
}
// highest level the active spec enables for `target` (0 = none): observation through the public
// `enabled` decision only
fn observed_rank(h: &LoggerHandle, target: &str) -> u64 {
    let g = h.writers_handle.spec.read().unwrap();
    let mut r = 0u64;
    let mut i = 0;
    while i < 5 {
        if g.enabled(LEVELS[i], target) {
            r = i as u64 + 1;
        }
        i += 1;
    }
    r
}

// --- environment ------------------------------------------------------------------------------
// model of the log facade's global gate (cell-free: own static in the support crate)
fn stub_set_max_level(l: LevelFilter) {
    vs::gate_set(l as usize);
}
fn stub_eprint_err(_c: ErrorCode, _m: &str, _e: &dyn std::error::Error) {
    vs::cell_inc(4);
}
fn stub_format(_a: std::fmt::Arguments<'_>) -> String {
    String::new()
}
// Contract stub for LogSpecification::parse (the parser itself is decided under C17):
//   "G<a><d><t>" -> Ok(spec a=<a>, default=<d>, text filter <t>);  anything starting with 'X' -> Err(Parse) carrying a
//   partial spec. Strings are produced by `menu()` only.
fn stub_parse<S: AsRef<str>>(s: S) -> Result<LogSpecification, FlexiLoggerError> {
    let b = s.as_ref().as_bytes();
    if b.len() == 4 && b[0] == b'G' {
        Ok(spec_of3((b[1] - b'0') as u64, (b[2] - b'0') as u64, b[3] - b'0'))
    } else {
        Err(FlexiLoggerError::Parse(String::new(), spec_of(5, 5)))
    }
}
struct RecW;
impl LogWriter for RecW {
    fn write(&self, _now: &mut crate::DeferredNow, _r: &log::Record) -> std::io::Result<()> {
        Ok(())
    }
    fn flush(&self) -> std::io::Result<()> {
        vs::cell_inc(5);
        Ok(())
    }
    fn max_log_level(&self) -> LevelFilter {
        filter_of(vs::cell_get(9))
    }
    fn shutdown(&self) {
        vs::cell_inc(6);
    }
}
// the writer behind the primary (Multi) writer: own counters (7 = flush, 8 = shutdown)
struct PrimW;
impl LogWriter for PrimW {
    fn write(&self, _now: &mut crate::DeferredNow, _r: &log::Record) -> std::io::Result<()> {
        Ok(())
    }
    fn flush(&self) -> std::io::Result<()> {
        vs::cell_inc(7);
        Ok(())
    }
    fn max_log_level(&self) -> LevelFilter {
        LevelFilter::Trace
    }
    fn shutdown(&self) {
        vs::cell_inc(8);
    }
}
fn dummy_format(_w: &mut dyn std::io::Write, _now: &mut crate::DeferredNow, _r: &log::Record) -> std::io::Result<()> {
    Ok(())
}
fn mk_handle(a: u64, d: u64, with_writer: bool) -> LoggerHandle {
    let primary = PrimaryWriter::multi(crate::Duplicate::None, crate::Duplicate::None, false, dummy_format, dummy_format, None, None);
    let mut others: HashMap<String, Box<dyn LogWriter>> = HashMap::new();
    if with_writer {
        others.push_unique("A".to_string(), Box::new(RecW));
    }
    LoggerHandle::new(Arc::new(RwLock::new(spec_of(a, d))), Arc::new(primary), Arc::new(others))
}
fn mk_handle3(a: u64, d: u64, t: u8, with_writer: bool) -> LoggerHandle {
    let primary = PrimaryWriter::multi(crate::Duplicate::None, crate::Duplicate::None, false, dummy_format, dummy_format, None, None);
    let mut others: HashMap<String, Box<dyn LogWriter>> = HashMap::new();
    if with_writer {
        others.push_unique("A".to_string(), Box::new(RecW));
    }
    LoggerHandle::new(Arc::new(RwLock::new(spec_of3(a, d, t))), Arc::new(primary), Arc::new(others))
}
fn any_rank() -> u64 {
    let r: u64 = kani::any();
    kani::assume(r <= 5);
    r
}

macro_rules! lh_harness {
    ($(#[$m:meta])* fn $name:ident() $body:block) => {
        #[kani::proof]
        #[kani::stub(verif_support::reexp::catch_unwind, verif_support::stub_cu)]
        #[kani::stub(crate::util::eprint_err, stub_eprint_err)]
        #[kani::stub(std::fmt::format, stub_format)]
        #[kani::stub(std::hash::RandomState::new, verif_support::stub_random_state)]
        #[kani::stub(log::set_max_level, stub_set_max_level)]
        #[kani::stub(crate::LogSpecification::parse, stub_parse)]
        $(#[$m])*
        fn $name() $body
    };
}

// One reconfiguration operation on the real handle + on the reference stack.
// Reference: `stack` of (a,d) pairs (depth <= 3) + active pair.
struct Ref {
    act: (u64, u64, u8),
    st: [(u64, u64, u8); 4],
    n: usize,
}
fn step(h: &mut LoggerHandle, r: &mut Ref, op: u8) {
    let a = any_rank();
    let d = any_rank();
    let t = any_tf();
    // op codes 5 / 6 are parse_new_spec / parse_and_push_temp_spec with a malformed string
    let bad = op == 5 || op == 6;
    let op = if op == 5 { 1 } else if op == 6 { 3 } else { op };
    let good = [b'G', b'0' + a as u8, b'0' + d as u8, b'0' + t];
    let txt: &str = if bad { "X y" } else { vs::str_from(&good) };
    match op {
        0 => {
            h.set_new_spec(spec_of3(a, d, t));
            r.act = (a, d, t);
        }
        1 => {
            let res = h.parse_new_spec(txt);
            assert!(res.is_err() == bad);
            std::mem::forget(res); // FlexiLoggerError's drop glue (io::Error / Box<dyn Error> arms) explodes in CBMC
            if !bad {
                r.act = (a, d, t);
            }
        }
        2 => {
            h.push_temp_spec(spec_of3(a, d, t));
            r.st[r.n] = r.act;
            r.n += 1;
            r.act = (a, d, t);
        }
        3 => {
            let res = h.parse_and_push_temp_spec(txt);
            assert!(res.is_err() == bad);
            std::mem::forget(res);
            if !bad {
                r.st[r.n] = r.act;
                r.n += 1;
                r.act = (a, d, t);
            }
        }
        _ => {
            h.pop_temp_spec();
            if r.n > 0 {
                r.n -= 1;
                r.act = r.st[r.n];
            }
        }
    }
    // filtering follows exactly the specification that is now active
    assert!(observed_rank(h, "ab") == r.act.0);
    assert!(observed_rank(h, "b") == r.act.1);
    // ... including its text filter (present / absent / which pattern)
    assert!(observed_tf(h) == r.act.2);
    // the saved stack has exactly the reference depth
    assert!(h.writers_handle.spec_stack.len() == r.n);
    // the facade's gate admits everything the active spec (or the additional writer) accepts
    let need = std::cmp::max(r.act.0, r.act.1);
    assert!(vs::gate_get() as u64 >= need);
    assert!(vs::gate_get() as u64 >= vs::cell_get(9) * vs::cell_get(10));
    kani::cover!(r.act.0 != r.act.1, "module level differs from default level");
}

// Operation codes: 0 set_new_spec, 1 parse_new_spec (well-formed), 2 push_temp_spec,
// 3 parse_and_push_temp_spec (well-formed), 4 pop_temp_spec, 5 parse_new_spec (malformed),
// 6 parse_and_push_temp_spec (malformed). The operation *kinds* are concrete per instance (a symbolic kind makes CBMC
// explore all five bodies at every step: probed, no result in 15 min); specifications, the
// well-formed/malformed choice, the initial spec and the writer ceiling are symbolic.
fn ops_case(op1: u8, op2: u8, op3: Option<u8>) {
    vs::link_all();
    let with_writer = false;
    vs::cell_set(9, 0);
    vs::cell_set(10, 0);
    let a0 = any_rank();
    let d0 = any_rank();
    let t0 = any_tf();
    let mut h = mk_handle3(a0, d0, t0, with_writer);
    h.reconfigure(spec_of(a0, d0).max_level());
    let mut r = Ref { act: (a0, d0, t0), st: [(0, 0, 0); 4], n: 0 };
    step(&mut h, &mut r, op1);
    step(&mut h, &mut r, op2);
    if let Some(op3) = op3 {
        step(&mut h, &mut r, op3);
    }
    std::mem::forget(h);
}
macro_rules! ops_instance {
    ($name:ident, $a:expr, $b:expr) => {
        lh_harness! {
        #[kani::unwind(8)]
        fn $name() {
            ops_case($a, $b, None);
        }
        }
    };
    ($name:ident, $a:expr, $b:expr, $c:expr) => {
        lh_harness! {
        #[kani::unwind(8)]
        fn $name() {
            ops_case($a, $b, Some($c));
        }
        }
    };
}
// @verif prop=C05 tier=quick timeout=600 bounds=ops[push,pop],specs{a=L,default=L}-symbolic
// push_temp_spec then pop_temp_spec: the real LoggerHandle agrees with a reference stack after every operation (active spec decides filtering, stack depth, gate >= spec).
ops_instance!(c05_push_pop, 2, 4);
// @verif prop=C05 tier=quick timeout=600 bounds=ops[parse_and_push(well-formed),pop]
// parse_and_push_temp_spec (well-formed) then pop.
ops_instance!(c05_parsepush_pop, 3, 4);
// @verif prop=C05 tier=quick timeout=600 bounds=ops[parse_and_push(malformed),pop]
// parse_and_push_temp_spec (malformed: Err, nothing changes) then pop on the still empty stack.
ops_instance!(c05_badparsepush_pop, 6, 4);
// @verif prop=C05 tier=quick timeout=600 bounds=ops[set,parse_new(well-formed)]
// set_new_spec then parse_new_spec.
ops_instance!(c05_set_parse, 0, 1);
// @verif prop=C05 tier=quick timeout=600 bounds=ops[set,parse_new(malformed)]
// set_new_spec then a rejected parse_new_spec: nothing changes.
ops_instance!(c05_set_badparse, 0, 5);
// @verif prop=C05 tier=quick timeout=600 bounds=ops[pop-on-empty,push]
// pop on the empty stack is a no-op; then push.
ops_instance!(c05_pop_push, 4, 2);
// @verif prop=C05 tier=thorough timeout=900 bounds=ops[push,parse_and_push(malformed),pop]
// nested: push, rejected parse_and_push, pop - pop restores exactly the spec before the matching push.
ops_instance!(c05_push_badparsepush_pop, 2, 6, 4);
// @verif prop=C05 tier=thorough timeout=900 bounds=ops[push,parse_and_push(well-formed),pop]
// nested: push, parse_and_push, pop.
ops_instance!(c05_push_parsepush_pop, 2, 3, 4);
// @verif prop=C05 tier=thorough timeout=900 bounds=ops[push,push,pop]
// two nested pushes, one pop.
ops_instance!(c05_push_push_pop, 2, 2, 4);
// @verif prop=C05 tier=thorough timeout=900 bounds=ops[parse_and_push,set,pop]
// a set_new_spec between push and pop does not disturb the stack.
ops_instance!(c05_parsepush_set_pop, 3, 0, 4);
// @verif prop=C05 tier=thorough timeout=900 bounds=ops[push,pop,pop]
// more pops than pushes.
ops_instance!(c05_push_pop_pop, 2, 4, 4);

// The same operation sequences with the text filter as part of every specification (feature
// `textfilter`, regex model): present / absent / which pattern must follow the active spec too.
// @verif prop=C05 tier=quick feat=textfilter timeout=900 bounds=ops[set,set],specs{a=L,default=L,text-filter-in{none,p1,p2}}-symbolic
// set_new_spec twice: the active text filter is exactly the one of the last spec (also when that spec has none).
#[cfg(feature = "textfilter")]
ops_instance!(c05_tf_set_set, 0, 0);
// @verif prop=C05 tier=quick feat=textfilter timeout=900 bounds=ops[push,pop],text-filter-symbolic
// push then pop restores the text filter of the spec that was active before.
#[cfg(feature = "textfilter")]
ops_instance!(c05_tf_push_pop, 2, 4);
// @verif prop=C05 tier=quick feat=textfilter timeout=900 bounds=ops[parse_new(well-formed),parse_and_push(malformed)],text-filter-symbolic
// parse_new_spec takes the parsed text filter over; a rejected parse_and_push leaves it alone.
#[cfg(feature = "textfilter")]
ops_instance!(c05_tf_parse_badparsepush, 1, 6);
// @verif prop=C05 tier=thorough feat=textfilter timeout=900 bounds=ops[parse_and_push,set,pop],text-filter-symbolic
// nested with a set in between.
#[cfg(feature = "textfilter")]
ops_instance!(c05_tf_parsepush_set_pop, 3, 0, 4);

// @verif prop=C05 tier=quick timeout=900 replay=rejected_push_then_pop bounds=push;rejected-parse_and_push;pop
// Targeted 3-step history: push_temp_spec(S1); parse_and_push_temp_spec(malformed) -> Err; pop_temp_spec must re-activate the spec that was active before the (only successful) push, and the stack must be empty.
lh_harness! {
#[kani::unwind(8)]
fn c05_rejected_push_then_pop() {
    vs::link_all();
    vs::cell_set(9, 0);
    vs::cell_set(10, 0);
    let a0 = any_rank();
    let d0 = any_rank();
    let a1 = any_rank();
    let d1 = any_rank();
    let mut h = mk_handle(a0, d0, false);
    h.push_temp_spec(spec_of(a1, d1));
    let res = h.parse_and_push_temp_spec("X y");
    assert!(res.is_err());
    std::mem::forget(res);
    // rejected: active spec and stack unchanged
    assert!(observed_rank(&h, "ab") == a1 && observed_rank(&h, "b") == d1);
    assert!(h.writers_handle.spec_stack.len() == 1);
    h.pop_temp_spec();
    assert!(observed_rank(&h, "ab") == a0 && observed_rank(&h, "b") == d0);
    assert!(h.writers_handle.spec_stack.len() == 0);
    kani::cover!(a0 != a1 && d0 != d1, "specs differ");
    std::mem::forget(h);
}
}

// ------------------------------------------------------------------------------------------------
// C02 (gate clause) with an additional writer whose ceiling is symbolic - also *below* the
// specification's maximum: the facade's global max level must admit everything the active
// specification enables AND everything the additional writer accepts.
// @verif prop=C02,C13,C05 tier=quick timeout=600 bounds=one-additional-writer(ceiling-symbolic-0..5),initial-and-new-spec{a=L,default=L}-symbolic,one-set_new_spec
// After set_new_spec the gate is at least the maximum level of the new specification and at least the additional writer's max_log_level - whichever of the two is larger, in particular when the writer's ceiling lies below the specification.
lh_harness! {
#[kani::unwind(8)]
fn c02_gate_covers_spec_and_writer() {
    vs::link_all();
    let c = any_rank();
    vs::cell_set(9, c);
    vs::cell_set(10, 0);
    let (a0, d0) = (any_rank(), any_rank());
    let (a, d) = (any_rank(), any_rank());
    let h = mk_handle(a0, d0, true);
    h.set_new_spec(spec_of(a, d));
    let g = vs::gate_get() as u64;
    assert!(g >= std::cmp::max(a, d));
    assert!(g >= c);
    // and it follows exactly that specification
    assert!(observed_rank(&h, "ab") == a && observed_rank(&h, "b") == d);
    kani::cover!(c < std::cmp::max(a, d), "writer ceiling below the specification's maximum");
    kani::cover!(c > std::cmp::max(a, d), "writer ceiling above the specification's maximum");
    std::mem::forget(h);
}
}

// ------------------------------------------------------------------------------------------------
// C12: concurrent specification changes. Kani has no threads; the schedule is made a symbolic
// variable instead. `log::set_max_level` is the moment a set_new_spec call publishes its gate; the
// stub below is the schedule point: before the gate is written, a second "thread" (a clone of the
// handle parked in T2) may run its complete set_new_spec, provided the spec lock is free at that
// moment (try_write succeeds) - if the implementation still holds the write lock there, the second
// thread would block, so it is not run. For last-writer-wins state (spec word, gate word) the
// well-nested interleavings {T2 before T1, T2 inside T1's window, T2 after T1} with symbolic,
// interchangeable A and B reach every final (spec, gate) pair that any interleaving of the four
// writes reaches (T1.spec,T2.spec,T2.gate,T1.gate is the nested case; T2.spec,T1.spec,T1.gate,
// T2.gate is the same case with the roles of A and B swapped; all others end consistent).
static T2: std::sync::Mutex<Option<(LoggerHandle, u64, u64)>> = std::sync::Mutex::new(None);
// Schedule points of the first thread: *before* every acquisition of the spec lock (read or
// write) and before the gate is written. cell 13 = points passed so far, cell 14 = the point at
// which the second thread arrives (symbolic). From its arrival on, the second thread runs its
// whole set_new_spec at the first point where the spec lock is free (try_write succeeds) - a
// thread blocked on the lock proceeds as soon as it is released - or after the first thread has
// returned. cell 11 counts nested runs, cell 12 blocked attempts.
fn sched_point() {
    let n = vs::cell_inc(13) - 1;
    if n >= vs::cell_get(14) {
        let parked = T2.lock().unwrap().take();
        if let Some((h, a, d)) = parked {
            let free = h.writers_handle.spec.try_write().is_ok();
            if free {
                vs::cell_inc(11);
                h.writers_handle.set_new_spec(spec_of(a, d)).ok();
                std::mem::forget(h);
            } else {
                vs::cell_inc(12);
                *T2.lock().unwrap() = Some((h, a, d));
            }
        }
    }
}
fn stub_set_max_level_sched(l: LevelFilter) {
    sched_point();
    vs::gate_set(l as usize);
}
// RwLock::read / ::write as "schedule point, then acquire" (acquisition through the real
// try_read / try_write; WouldBlock can only mean that this same thread already holds the lock)
fn stub_rw_read<T: ?Sized>(l: &RwLock<T>) -> std::sync::LockResult<std::sync::RwLockReadGuard<'_, T>> {
    sched_point();
    match l.try_read() {
        Ok(g) => Ok(g),
        Err(std::sync::TryLockError::Poisoned(p)) => Err(p),
        Err(std::sync::TryLockError::WouldBlock) => unreachable!("self-deadlock on the spec lock"),
    }
}
fn stub_rw_write<T: ?Sized>(l: &RwLock<T>) -> std::sync::LockResult<std::sync::RwLockWriteGuard<'_, T>> {
    sched_point();
    match l.try_write() {
        Ok(g) => Ok(g),
        Err(std::sync::TryLockError::Poisoned(p)) => Err(p),
        Err(std::sync::TryLockError::WouldBlock) => unreachable!("self-deadlock on the spec lock"),
    }
}

macro_rules! c12_harness {
    ($(#[$m:meta])* fn $name:ident() $body:block) => {
        #[kani::proof]
        #[kani::stub(verif_support::reexp::catch_unwind, verif_support::stub_cu)]
        #[kani::stub(crate::util::eprint_err, stub_eprint_err)]
        #[kani::stub(std::fmt::format, stub_format)]
        #[kani::stub(std::hash::RandomState::new, verif_support::stub_random_state)]
        #[kani::stub(log::set_max_level, stub_set_max_level_sched)]
        #[kani::stub(std::sync::RwLock::read, stub_rw_read)]
        #[kani::stub(std::sync::RwLock::write, stub_rw_write)]
        $(#[$m])*
        fn $name() $body
    };
}

// The arrival point is concrete per instance (symbolic: CBMC > 12 GB); specifications are symbolic.
fn two_setters_case(arrive: u64) {
    vs::link_all();
    vs::cell_set(9, 0);
    let (a0, d0) = (any_rank(), any_rank());
    let (aa, da) = (any_rank(), any_rank());
    let (ab, db) = (any_rank(), any_rank());
    // two handles on the same logger, as LoggerHandle::clone() yields them (shared spec lock, shared
    // writers, each with its own - here empty - stack of saved specs). Built with LoggerHandle::new
    // instead of clone(): cloning the *empty* spec_stack goes through Vec::spare_capacity_mut on an
    // unallocated Vec, and CBMC flagged that zero-length slice of a dangling-but-valid pointer as
    // "pointer invalid" whenever the gate's start value is symbolic (not reproducible natively: a false
    // alarm of the encoding, DESIGN.md 6); nothing of set_new_spec depends on the stack.
    let primary = Arc::new(PrimaryWriter::multi(crate::Duplicate::None, crate::Duplicate::None, false, dummy_format, dummy_format, None, None));
    let others: Arc<HashMap<String, Box<dyn LogWriter>>> = Arc::new(HashMap::new());
    let spec = Arc::new(RwLock::new(spec_of(a0, d0)));
    let h1 = LoggerHandle::new(Arc::clone(&spec), Arc::clone(&primary), Arc::clone(&others));
    let h2 = LoggerHandle::new(Arc::clone(&spec), Arc::clone(&primary), Arc::clone(&others));
    // as after Logger::build(): the gate is consistent with the initial specification (no additional
    // writers here, so it is the spec's max level; rank r = LevelFilter as usize)
    vs::gate_set(std::cmp::max(a0, d0) as usize);
    *T2.lock().unwrap() = Some((h2, ab, db));
    vs::cell_set(13, 0);
    vs::cell_set(14, arrive);
    h1.writers_handle.set_new_spec(spec_of(aa, da)).ok();
    // T2 arrived later, or was still blocked when T1 returned: it runs now
    vs::cell_set(14, 1000);
    let parked = T2.lock().unwrap().take();
    if let Some((h, a, d)) = parked {
        h.writers_handle.set_new_spec(spec_of(a, d)).ok();
        std::mem::forget(h);
    }
    let (fa, fd) = (observed_rank(&h1, "ab"), observed_rank(&h1, "b"));
    // exactly one of the submitted specifications, as a whole
    assert!((fa, fd) == (aa, da) || (fa, fd) == (ab, db));
    // the gate admits every record this specification enables
    assert!(vs::gate_get() as u64 >= std::cmp::max(fa, fd));
    kani::cover!(std::cmp::max(aa, da) < std::cmp::max(ab, db), "first spec stricter than second");
    kani::cover!(std::cmp::max(aa, da) > std::cmp::max(ab, db), "second spec stricter than first");
    std::mem::forget(h1);
    std::mem::forget(spec);
    std::mem::forget(primary);
    std::mem::forget(others);
}
macro_rules! two_setters_instance {
    ($name:ident, $arrive:expr) => {
        c12_harness! {
        #[kani::unwind(8)]
        fn $name() {
            two_setters_case($arrive);
        }
        }
    };
}
// @verif prop=C12 tier=quick timeout=900 replay=two_setters bounds=2-concurrent-set_new_spec,second-call-arrives-before-the-first-takes-the-lock,specs{a=L,default=L}-symbolic
// Two concurrent set_new_spec(A) / set_new_spec(B) calls; the second arrives at schedule point 0 of the first (before its first lock acquisition) and runs as soon as the spec lock is free: afterwards the logger filters by exactly A or exactly B and the gate admits every level that spec enables.
two_setters_instance!(c12_two_setters_arrive0, 0);
// @verif prop=C12 tier=quick timeout=900 replay=two_setters bounds=same,second-call-arrives-at-schedule-point-1(after-the-spec-update:-next-lock-acquisition-or-gate-update)
// ... the second call arrives at schedule point 1 of the first (the first point after the spec update).
two_setters_instance!(c12_two_setters_arrive1, 1);
// @verif prop=C12 tier=quick timeout=900 replay=two_setters bounds=same,second-call-arrives-at-schedule-point-2
// ... arrives at schedule point 2 (if the first call has that many; otherwise after it).
two_setters_instance!(c12_two_setters_arrive2, 2);
// @verif prop=C12 tier=thorough timeout=900 replay=two_setters bounds=same,second-call-arrives-at-schedule-point-3
// ... arrives at schedule point 3 (a point the current implementation does not have: the second call then runs after the first; guards against implementations with more lock acquisitions).
two_setters_instance!(c12_two_setters_arrive3, 3);

// ------------------------------------------------------------------------------------------------
// C04: flush() / shutdown() of the handle reach the primary writer and every additional writer.
fn mk_handle_fanout() -> LoggerHandle {
    let primary = PrimaryWriter::multi(crate::Duplicate::None, crate::Duplicate::None, false, dummy_format, dummy_format, None, Some(Box::new(PrimW)));
    let mut others: HashMap<String, Box<dyn LogWriter>> = HashMap::new();
    others.push_unique("A".to_string(), Box::new(RecW));
    others.push_unique("B".to_string(), Box::new(RecW));
    LoggerHandle::new(Arc::new(RwLock::new(spec_of(3, 3))), Arc::new(primary), Arc::new(others))
}
fn cut_flw_flush(_w: &crate::writers::FileLogWriter) -> std::io::Result<()> {
    unreachable!("VERIF-CUT FileLogWriter::flush (no file writer configured)")
}
fn cut_flw_shutdown(_w: &crate::writers::FileLogWriter) {
    unreachable!("VERIF-CUT FileLogWriter::shutdown (no file writer configured)")
}
// @verif prop=C04 tier=probe timeout=600 bounds=Multi-primary-writer(over-a-recording-writer)+2-additional-writers,flush()-then-shutdown()
// BUDGET GATE: no result in 400 s: LoggerHandle::flush / PrimaryWriter::shutdown discard the Result of a *virtual* flush call with `.ok()`; the merged result of the call candidates is symbolic for CBMC and the io::Error drop glue is explored (DESIGN.md 2); not registered.
// LoggerHandle::flush() flushes the writer behind the primary channel and each additional writer (at least once each) before it returns; LoggerHandle::shutdown() shuts each of them down - so that whatever they buffered for completed log calls is written out when the call returns.
lh_harness! {
#[kani::unwind(6)]
#[kani::stub(<crate::writers::FileLogWriter as crate::writers::LogWriter>::flush, cut_flw_flush)]
#[kani::stub(<crate::writers::FileLogWriter as crate::writers::LogWriter>::shutdown, cut_flw_shutdown)]
#[kani::stub(<crate::primary_writer::test_writer::TestWriter as crate::writers::LogWriter>::flush, crate::primary_writer::verif_harness::cut_test_flush)]
#[kani::stub(<crate::primary_writer::std_writer::StdWriter as crate::writers::LogWriter>::flush, crate::primary_writer::verif_harness::cut_std_flush)]
#[kani::stub(<crate::primary_writer::test_writer::TestWriter as crate::writers::LogWriter>::shutdown, crate::primary_writer::verif_harness::cut_test_shutdown)]
#[kani::stub(<crate::primary_writer::std_writer::StdWriter as crate::writers::LogWriter>::shutdown, crate::primary_writer::verif_harness::cut_std_shutdown)]
fn c04_handle_flush_shutdown_fanout() {
    vs::link_all();
    vs::cell_set(9, 0);
    let h = mk_handle_fanout();
    h.flush();
    assert!(vs::cell_get(7) >= 1); // primary
    assert!(vs::cell_get(5) >= 2); // A and B
    let (f5, f7) = (vs::cell_get(5), vs::cell_get(7));
    h.shutdown();
    // every writer is shut down by the time shutdown() returns ...
    assert!(vs::cell_get(8) >= 1 && vs::cell_get(6) >= 2);
    // ... and the writer behind the primary channel is flushed on the way (a writer that buffers
    // and relies on the trait's default no-op shutdown() would otherwise keep completed records)
    assert!(vs::cell_get(7) > f7);
    kani::cover!(vs::cell_get(5) >= f5, "executed");
    std::mem::forget(h);
}
}
