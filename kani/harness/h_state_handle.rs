// Harnesses that are children of `writers::file_log_writer::state_handle`.
use super::*;
use crate::writers::file_log_writer::verif_harness::mk_config;
use crate::{FileSpec, WriteMode};
use verif_support as vs;

// State::write_buffer replaced by a recorder: cells 0 = number of calls, 1 = total bytes,
// event log = every byte handed over (tagged with the call number in the high bits).
fn rec_write_buffer(_s: &mut State, buf: &[u8]) -> std::io::Result<()> {
    let call = vs::cell_inc(0);
    let mut i = 0;
    while i < buf.len() {
        vs::ev_push((call as u32) << 8 | buf[i] as u32);
        i += 1;
    }
    vs::cell_set(1, vs::cell_get(1) + buf.len() as u64);
    Ok(())
}
fn cut_start_sync_flusher(_s: Arc<Mutex<State>>, _d: std::time::Duration) {
    unreachable!("VERIF-CUT start_sync_flusher (no flush interval configured)")
}
fn stub_eprint_err(_c: ErrorCode, _m: &str, _e: &dyn std::error::Error) {
    vs::cell_inc(4);
}

// marker format: writes 2 symbolic bytes taken from cells 5 and 6
fn fmt_two_bytes(w: &mut dyn std::io::Write, _now: &mut DeferredNow, _r: &Record) -> std::io::Result<()> {
    let b = [vs::cell_get(5) as u8, vs::cell_get(6) as u8];
    w.write_all(&b)
}

// @verif prop=C20,C01 tier=quick timeout=900 bounds=format-output-2-symbolic-bytes,LF-and-CRLF,sync-handle,non-recursive-path
// StateHandle::write (sync) hands the state exactly one buffer per record: the format function's output followed by exactly one configured line ending (LF or CRLF), and leaves the thread-local buffer empty for the next record.
#[kani::proof]
#[kani::unwind(8)]
#[kani::stub(verif_support::reexp::catch_unwind, verif_support::stub_cu)]
#[kani::stub(crate::parameters::file_spec::TimestampCfg::get_timestamp, crate::parameters::file_spec::verif_harness::cut_get_timestamp)]
#[kani::stub(crate::writers::file_log_writer::state::State::write_buffer, rec_write_buffer)]
#[kani::stub(crate::writers::file_log_writer::state::start_sync_flusher, cut_start_sync_flusher)]
#[kani::stub(crate::util::eprint_err, stub_eprint_err)]
#[kani::stub(crate::util::buffer_with, verif_support::buffer_with_model)]
fn c20_framing_sync() {
    vs::link_all();
    let crlf: bool = kani::any();
    let mut cfg = mk_config(FileSpec::default().directory("d").basename("b").suppress_timestamp(), false, WriteMode::Direct);
    if crlf {
        cfg.line_ending = b"\r\n";
    }
    let state = State::new(cfg, None, false);
    let b0: u8 = kani::any();
    let b1: u8 = kani::any();
    vs::cell_set(5, b0 as u64);
    vs::cell_set(6, b1 as u64);
    let h = StateHandle::new_sync(state, fmt_two_bytes);
    let mut now = DeferredNow::new();
    let r = log::Record::builder().level(log::Level::Info).target("t").args(format_args!("m")).build();
    h.write(&mut now, &r).ok();
    let n = if crlf { 4 } else { 3 };
    assert!(vs::cell_get(0) == 1);
    assert!(vs::cell_get(1) == n);
    assert!(vs::ev_len() == n as usize);
    assert!(vs::ev_get(0) == (1 << 8 | b0 as u32));
    assert!(vs::ev_get(1) == (1 << 8 | b1 as u32));
    if crlf {
        assert!(vs::ev_get(2) == (1 << 8 | 13) && vs::ev_get(3) == (1 << 8 | 10));
    } else {
        assert!(vs::ev_get(2) == (1 << 8 | 10));
    }
    // second record: the buffer was cleared, framing is identical
    h.write(&mut now, &r).ok();
    assert!(vs::cell_get(0) == 2);
    assert!(vs::cell_get(1) == 2 * n);
    assert!(vs::ev_get(n as usize) == (2 << 8 | b0 as u32));
    kani::cover!(crlf && b0 == b'\n', "format output itself contains a newline");
    std::mem::forget(h);
}

// ------------------------------------------------------------------------------------------------
// Recursive logging: the format function of the outer record logs another record through the same
// handle while the thread-local buffer is borrowed (a log call inside a Display implementation).
static HANDLE: std::sync::Mutex<Option<&'static StateHandle>> = std::sync::Mutex::new(None);
fn fmt_recursive(w: &mut dyn std::io::Write, now: &mut DeferredNow, r: &Record) -> std::io::Result<()> {
    if vs::cell_get(8) == 0 {
        vs::cell_set(8, 1);
        // inner record, logged from within the formatting of the outer one
        let h = HANDLE.lock().unwrap().unwrap();
        h.write(now, r).ok();
        w.write_all(b"O")
    } else {
        w.write_all(b"I")
    }
}
// @verif prop=C20,C03 tier=quick timeout=900 bounds=one-level-of-recursive-logging,LF-and-CRLF
// Recursive logging from within a format function: the inner record is written first and the outer one after it, each as one intact buffer = its own format output + exactly one line ending (the fall-back buffer of the recursive branch is framed like the normal one).
#[kani::proof]
#[kani::unwind(8)]
#[kani::stub(verif_support::reexp::catch_unwind, verif_support::stub_cu)]
#[kani::stub(crate::parameters::file_spec::TimestampCfg::get_timestamp, crate::parameters::file_spec::verif_harness::cut_get_timestamp)]
#[kani::stub(crate::writers::file_log_writer::state::State::write_buffer, rec_write_buffer)]
#[kani::stub(crate::writers::file_log_writer::state::start_sync_flusher, cut_start_sync_flusher)]
#[kani::stub(crate::util::eprint_err, stub_eprint_err)]
#[kani::stub(crate::util::buffer_with, verif_support::buffer_with_model)]
fn c20_framing_recursive() {
    vs::link_all();
    let crlf: bool = kani::any();
    let mut cfg = mk_config(FileSpec::default().directory("d").basename("b").suppress_timestamp(), false, WriteMode::Direct);
    if crlf {
        cfg.line_ending = b"\r\n";
    }
    let state = State::new(cfg, None, false);
    let h: &'static StateHandle = Box::leak(Box::new(StateHandle::new_sync(state, fmt_recursive)));
    *HANDLE.lock().unwrap() = Some(h);
    vs::cell_set(8, 0);
    let mut now = DeferredNow::new();
    let r = log::Record::builder().level(log::Level::Info).target("t").args(format_args!("m")).build();
    h.write(&mut now, &r).ok();
    let per = if crlf { 3 } else { 2 };
    assert!(vs::cell_get(0) == 2); // two buffers handed over: inner, then outer
    assert!(vs::ev_len() == 2 * per);
    assert!(vs::ev_get(0) == (1 << 8 | b'I' as u32));
    assert!(vs::ev_get(per) == (2 << 8 | b'O' as u32));
    assert!(vs::ev_get(per - 1) == (1 << 8 | 10) && vs::ev_get(2 * per - 1) == (2 << 8 | 10));
    if crlf {
        assert!(vs::ev_get(1) == (1 << 8 | 13) && vs::ev_get(per + 1) == (2 << 8 | 13));
    }
    kani::cover!(crlf, "CRLF");
    kani::cover!(!crlf, "LF");
}

// ------------------------------------------------------------------------------------------------
// Sync handle: the operations of the public API reach the state exactly once, with the right
// arguments, under the state mutex (C15 raw chunks, C01 triggered rotation, C04 flush/shutdown,
// C18 reopen). The State methods are recorders; what they do is decided in h_state.rs.
fn rec_mount_next(_s: &mut State, force: bool) -> Result<(), FlexiLoggerError> {
    vs::cell_inc(10);
    vs::cell_set(11, force as u64);
    Ok(())
}
fn rec_reopen(_s: &mut State) -> Result<(), std::io::Error> {
    vs::cell_inc(12);
    Ok(())
}
fn rec_flush(_s: &mut State) -> std::io::Result<()> {
    vs::cell_inc(13);
    Ok(())
}
fn rec_shutdown(_s: &mut State) {
    vs::cell_inc(14);
}
macro_rules! sh_harness {
    ($u:literal, fn $name:ident() $body:block) => {
        #[kani::proof]
        #[kani::unwind($u)]
        #[kani::stub(verif_support::reexp::catch_unwind, verif_support::stub_cu)]
        #[kani::stub(crate::parameters::file_spec::TimestampCfg::get_timestamp, crate::parameters::file_spec::verif_harness::cut_get_timestamp)]
        #[kani::stub(crate::writers::file_log_writer::state::State::write_buffer, rec_write_buffer)]
        #[kani::stub(crate::writers::file_log_writer::state::State::mount_next_linewriter_if_necessary, rec_mount_next)]
        #[kani::stub(crate::writers::file_log_writer::state::State::reopen_outputfile, rec_reopen)]
        #[kani::stub(crate::writers::file_log_writer::state::State::flush, rec_flush)]
        #[kani::stub(crate::writers::file_log_writer::state::State::shutdown, rec_shutdown)]
        #[kani::stub(crate::writers::file_log_writer::state::start_sync_flusher, cut_start_sync_flusher)]
        #[kani::stub(crate::util::eprint_err, stub_eprint_err)]
        #[kani::stub(crate::util::buffer_with, verif_support::buffer_with_model)]
        fn $name() $body
    };
}
fn fmt_none(_w: &mut dyn std::io::Write, _now: &mut DeferredNow, _r: &Record) -> std::io::Result<()> {
    Ok(())
}
fn sync_handle() -> StateHandle {
    let cfg = mk_config(FileSpec::default().directory("d").basename("b").suppress_timestamp(), false, WriteMode::Direct);
    StateHandle::new_sync(State::new(cfg, None, false), fmt_none)
}
// @verif prop=C15,C01 tier=quick timeout=600 bounds=2-raw-chunks-of-symbolic-length<=3-with-symbolic-bytes(all-256-values,incl.-the-control-message-bytes)
// Raw byte chunks written through the file writer's io::Write path (sync): the concatenation of the chunks is handed to the state unchanged and in order, each byte exactly once, whatever the bytes and lengths (empty chunks included), and the number of bytes accepted is reported.
sh_harness! { 8,
fn c15_plain_write_chunks() {
    plain_write_case::<3>();
}
}
// @verif prop=C15 tier=thorough timeout=900 bounds=2-raw-chunks-of-symbolic-length<=5-with-symbolic-bytes
// The same for chunks up to 5 bytes (the event log holds 12 bytes).
sh_harness! { 12,
fn c15_plain_write_chunks_deep() {
    plain_write_case::<5>();
}
}
fn plain_write_case<const N: usize>() {
    vs::link_all();
    let h = sync_handle();
    let c1: [u8; N] = kani::any();
    let c2: [u8; N] = kani::any();
    let l1: usize = kani::any();
    let l2: usize = kani::any();
    kani::assume(l1 <= N && l2 <= N);
    let r1 = h.plain_write(&c1[..l1]);
    match &r1 {
        Ok(n) => assert!(*n == l1),
        Err(_) => assert!(false, "plain_write failed"),
    }
    std::mem::forget(r1);
    let r2 = h.plain_write(&c2[..l2]);
    match &r2 {
        Ok(n) => assert!(*n == l2),
        Err(_) => assert!(false, "plain_write failed"),
    }
    std::mem::forget(r2);
    // the concatenation arrives unchanged (how many hand-overs carry it is not prescribed)
    assert!(vs::ev_len() == l1 + l2);
    let mut i = 0;
    while i < N {
        if i < l1 {
            assert!(vs::ev_get(i) & 0xff == c1[i] as u32);
        }
        if i < l2 {
            assert!(vs::ev_get(l1 + i) & 0xff == c2[i] as u32);
        }
        i += 1;
    }
    kani::cover!(l1 == 1 && c1[0] == b'F', "one-byte chunk F");
    kani::cover!(l1 == 0 && l2 == N, "empty chunk first");
    std::mem::forget(h);
}
// @verif prop=C01,C18,C04 tier=quick timeout=600 bounds=one-call-each-of-rotate/reopen_outputfile/flush/shutdown-on-a-sync-handle
// trigger_rotation reaches the rotation step exactly once and *forced*; reopen, flush and shutdown reach the state exactly once each; none of them hands any bytes to the writer.
sh_harness! { 8,
fn c01_handle_forwards_operations() {
    vs::link_all();
    let h = sync_handle();
    let r = h.rotate();
    assert!(r.is_ok());
    std::mem::forget(r);
    assert!(vs::cell_get(10) == 1 && vs::cell_get(11) == 1);
    let r = h.reopen_outputfile();
    assert!(r.is_ok());
    std::mem::forget(r);
    assert!(vs::cell_get(12) == 1);
    let r = h.flush();
    assert!(r.is_ok());
    std::mem::forget(r);
    assert!(vs::cell_get(13) == 1);
    h.shutdown();
    assert!(vs::cell_get(14) == 1);
    assert!(vs::cell_get(0) == 0 && vs::cell_get(10) == 1 && vs::cell_get(12) == 1 && vs::cell_get(13) == 1);
    kani::cover!(true, "executed");
    std::mem::forget(h);
}
}

// ------------------------------------------------------------------------------------------------
// C18: StateHandle::reset (reset_flw). The new state comes from the builder (try_build_state is a
// contract stub: a fresh State whose file spec carries the basename "N"); observed through the
// public `config()`.
fn stub_try_build_state(_b: &crate::writers::FileLogWriterBuilder) -> Result<State, FlexiLoggerError> {
    vs::cell_inc(15);
    let cfg = mk_config(FileSpec::default().directory("d").basename("N").suppress_timestamp(), false, WriteMode::Direct);
    Ok(State::new(cfg, None, false))
}
fn basename_first_byte(h: &StateHandle) -> u8 {
    match h.config() {
        Ok(c) => {
            let p = c.file_spec.as_pathbuf(None);
            use std::os::unix::ffi::OsStrExt;
            let b = p.as_os_str().as_bytes();
            // "d/<basename>.log": byte 2 is the first byte of the basename
            let r = if b.len() > 2 { b[2] } else { 0 };
            std::mem::forget(p);
            std::mem::forget(c);
            r
        }
        Err(e) => {
            std::mem::forget(e);
            0
        }
    }
}
// @verif prop=C18 tier=probe timeout=600 bounds=sync-handle,reset-with-a-builder-of-the-same-write-mode-/-of-another-write-mode(symbolic)
// reset_flw: with a builder of the same write mode the state is replaced by the newly built one (subsequent records go to the newly specified file); with a builder of another write mode the call is rejected and the state stays what it was.
#[kani::proof]
#[kani::unwind(8)]
#[kani::stub(verif_support::reexp::catch_unwind, verif_support::stub_cu)]
#[kani::stub(crate::parameters::file_spec::TimestampCfg::get_timestamp, crate::parameters::file_spec::verif_harness::cut_get_timestamp)]
#[kani::stub(crate::writers::file_log_writer::state::start_sync_flusher, cut_start_sync_flusher)]
#[kani::stub(crate::util::eprint_err, stub_eprint_err)]
#[kani::stub(crate::writers::FileLogWriterBuilder::try_build_state, stub_try_build_state)]
fn c18_reset_replaces_state() {
    vs::link_all();
    let h = sync_handle(); // basename "b", WriteMode::Direct
    assert!(basename_first_byte(&h) == b'b');
    let other_mode: bool = kani::any();
    let mut b = crate::writers::FileLogWriter::builder(FileSpec::default().directory("d").basename("x").suppress_timestamp());
    if other_mode {
        b = b.write_mode(WriteMode::BufferDontFlush);
    }
    let r = h.reset(&b);
    let ok = r.is_ok();
    std::mem::forget(r);
    assert!(ok == !other_mode);
    if ok {
        assert!(vs::cell_get(15) == 1);
        assert!(basename_first_byte(&h) == b'N');
    } else {
        assert!(basename_first_byte(&h) == b'b');
    }
    kani::cover!(ok, "reset accepted");
    kani::cover!(!ok, "reset rejected: other write mode");
    std::mem::forget(b);
    std::mem::forget(h);
}
