// Harnesses that are children of `writers::file_log_writer::state_handle`.
use super::*;
use crate::writers::file_log_writer::verif_harness::mk_config;
use crate::{FileSpec, WriteMode};
use verif_support as vs;

// State::write_buffer replaced by a recorder: cells 0 = number of calls, 1 = total bytes,
// event log = every byte handed over (tagged with the call number in the high bits).
fn rec_write_buffer(_s: &mut State, buf: &[u8]) -> std::io::Result<()> {
    let call = vs::cell_inc(0);
    let mut i = 0;
    while i < buf.len() {
        vs::ev_push((call as u32) << 8 | buf[i] as u32);
        i += 1;
    }
    vs::cell_set(1, vs::cell_get(1) + buf.len() as u64);
    Ok(())
}
fn cut_start_sync_flusher(_s: Arc<Mutex<State>>, _d: std::time::Duration) {
    unreachable!("VERIF-CUT start_sync_flusher (no flush interval configured)")
}
fn stub_eprint_err(_c: ErrorCode, _m: &str, _e: &dyn std::error::Error) {
    vs::cell_inc(4);
}

// marker format: writes 2 symbolic bytes taken from cells 5 and 6
fn fmt_two_bytes(w: &mut dyn std::io::Write, _now: &mut DeferredNow, _r: &Record) -> std::io::Result<()> {
    let b = [vs::cell_get(5) as u8, vs::cell_get(6) as u8];
    w.write_all(&b)
}

// @verif prop=C20,C01 tier=quick timeout=900 bounds=format-output-2-symbolic-bytes,LF-and-CRLF,sync-handle,non-recursive-path
// StateHandle::write (sync) hands the state exactly one buffer per record: the format function's output followed by exactly one configured line ending (LF or CRLF), and leaves the thread-local buffer empty for the next record.
#[kani::proof]
#[kani::unwind(8)]
#[kani::stub(verif_support::reexp::catch_unwind, verif_support::stub_cu)]
#[kani::stub(crate::writers::file_log_writer::state::State::write_buffer, rec_write_buffer)]
#[kani::stub(crate::writers::file_log_writer::state::start_sync_flusher, cut_start_sync_flusher)]
#[kani::stub(crate::util::eprint_err, stub_eprint_err)]
#[kani::stub(crate::util::buffer_with, verif_support::buffer_with_model)]
fn c20_framing_sync() {
    vs::link_all();
    let crlf: bool = kani::any();
    let mut cfg = mk_config(FileSpec::default().directory("d").basename("b").suppress_timestamp(), false, WriteMode::Direct);
    if crlf {
        cfg.line_ending = b"\r\n";
    }
    let state = State::new(cfg, None, false);
    let b0: u8 = kani::any();
    let b1: u8 = kani::any();
    vs::cell_set(5, b0 as u64);
    vs::cell_set(6, b1 as u64);
    let h = StateHandle::new_sync(state, fmt_two_bytes);
    let mut now = DeferredNow::new();
    let r = log::Record::builder().level(log::Level::Info).target("t").args(format_args!("m")).build();
    h.write(&mut now, &r).ok();
    let n = if crlf { 4 } else { 3 };
    assert!(vs::cell_get(0) == 1);
    assert!(vs::cell_get(1) == n);
    assert!(vs::ev_len() == n as usize);
    assert!(vs::ev_get(0) == (1 << 8 | b0 as u32));
    assert!(vs::ev_get(1) == (1 << 8 | b1 as u32));
    if crlf {
        assert!(vs::ev_get(2) == (1 << 8 | 13) && vs::ev_get(3) == (1 << 8 | 10));
    } else {
        assert!(vs::ev_get(2) == (1 << 8 | 10));
    }
    // second record: the buffer was cleared, framing is identical
    h.write(&mut now, &r).ok();
    assert!(vs::cell_get(0) == 2);
    assert!(vs::cell_get(1) == 2 * n);
    assert!(vs::ev_get(n as usize) == (2 << 8 | b0 as u32));
    kani::cover!(crlf && b0 == b'\n', "format output itself contains a newline");
    std::mem::forget(h);
}

// ------------------------------------------------------------------------------------------------
// Recursive logging: the format function of the outer record logs another record through the same
// handle while the thread-local buffer is borrowed (a log call inside a Display implementation).
static HANDLE: std::sync::Mutex<Option<&'static StateHandle>> = std::sync::Mutex::new(None);
fn fmt_recursive(w: &mut dyn std::io::Write, now: &mut DeferredNow, r: &Record) -> std::io::Result<()> {
    if vs::cell_get(8) == 0 {
        vs::cell_set(8, 1);
        // inner record, logged from within the formatting of the outer one
        let h = HANDLE.lock().unwrap().unwrap();
        h.write(now, r).ok();
        w.write_all(b"O")
    } else {
        w.write_all(b"I")
    }
}
// @verif prop=C20,C03 tier=quick timeout=900 bounds=one-level-of-recursive-logging,LF-and-CRLF
// Recursive logging from within a format function: the inner record is written first and the outer one after it, each as one intact buffer = its own format output + exactly one line ending (the fall-back buffer of the recursive branch is framed like the normal one).
#[kani::proof]
#[kani::unwind(8)]
#[kani::stub(verif_support::reexp::catch_unwind, verif_support::stub_cu)]
#[kani::stub(crate::writers::file_log_writer::state::State::write_buffer, rec_write_buffer)]
#[kani::stub(crate::writers::file_log_writer::state::start_sync_flusher, cut_start_sync_flusher)]
#[kani::stub(crate::util::eprint_err, stub_eprint_err)]
#[kani::stub(crate::util::buffer_with, verif_support::buffer_with_model)]
fn c20_framing_recursive() {
    vs::link_all();
    let crlf: bool = kani::any();
    let mut cfg = mk_config(FileSpec::default().directory("d").basename("b").suppress_timestamp(), false, WriteMode::Direct);
    if crlf {
        cfg.line_ending = b"\r\n";
    }
    let state = State::new(cfg, None, false);
    let h: &'static StateHandle = Box::leak(Box::new(StateHandle::new_sync(state, fmt_recursive)));
    *HANDLE.lock().unwrap() = Some(h);
    vs::cell_set(8, 0);
    let mut now = DeferredNow::new();
    let r = log::Record::builder().level(log::Level::Info).target("t").args(format_args!("m")).build();
    h.write(&mut now, &r).ok();
    let per = if crlf { 3 } else { 2 };
    assert!(vs::cell_get(0) == 2); // two buffers handed over: inner, then outer
    assert!(vs::ev_len() == 2 * per);
    assert!(vs::ev_get(0) == (1 << 8 | b'I' as u32));
    assert!(vs::ev_get(per) == (2 << 8 | b'O' as u32));
    assert!(vs::ev_get(per - 1) == (1 << 8 | 10) && vs::ev_get(2 * per - 1) == (2 << 8 | 10));
    if crlf {
        assert!(vs::ev_get(1) == (1 << 8 | 13) && vs::ev_get(per + 1) == (2 << 8 | 13));
    }
    kani::cover!(crlf, "CRLF");
    kani::cover!(!crlf, "LF");
}
