//! Support crate for the Kani harnesses over flexi_logger.
//!
//! flexi_logger is `#![forbid(unsafe_code)]`; everything that needs `unsafe`, `static mut` or
//! `#[no_mangle]` (environment model: clock cell, error-report recorder, gate model, model file
//! system, libc fd-level models) lives here. Every function in this crate that is used as a
//! `#[kani::stub]` replacement is part of the claim of the harness that uses it (DESIGN.md 3.3).
#![feature(c_variadic)]
#![feature(pattern)]
#![feature(allocator_api)]
#![allow(non_camel_case_types, unused, static_mut_refs, clippy::all)]

pub mod fsmodel;

// ---------------------------------------------------------------------------------------------
// catch_unwind: Kani 0.68 ICEs when `core::intrinsics::catch_unwind` is reachable. Under Kani's
// panic=abort model `catch_unwind(f)` is exactly `Ok(f())`.
pub mod reexp {
    pub use std::panic::catch_unwind;
}
pub fn stub_cu<F: FnOnce() -> R + std::panic::UnwindSafe, R>(f: F) -> std::thread::Result<R> {
    Ok(f())
}

// ---------------------------------------------------------------------------------------------
// Generic small cells that in-crate harness code (no `unsafe` allowed there) uses as globals.
pub const NCELL: usize = 32;
static mut CELLS: [u64; NCELL] = [0; NCELL];
pub fn cell_get(i: usize) -> u64 {
    unsafe { CELLS[i] }
}
pub fn cell_set(i: usize, v: u64) {
    unsafe { CELLS[i] = v }
}
pub fn cell_inc(i: usize) -> u64 {
    unsafe {
        CELLS[i] += 1;
        CELLS[i]
    }
}

// Small append-only event log (tags), for ordering oracles.
pub const NLOG: usize = 12;
static mut EVLOG: [u32; NLOG] = [0; NLOG];
static mut EVN: usize = 0;
pub fn ev_push(v: u32) {
    unsafe {
        if EVN < NLOG {
            EVLOG[EVN] = v;
        }
        EVN += 1;
    }
}
pub fn ev_len() -> usize {
    unsafe { EVN }
}
pub fn ev_get(i: usize) -> u32 {
    unsafe { EVLOG[i] }
}


// Byte log (session 3): bytes delivered to recording sinks, tagged with the sink id, in order.
pub const NBL: usize = 24;
static mut BLOG: [u16; NBL] = [0; NBL];
static mut BLN: usize = 0;
pub fn bl_push(id: u32, b: u8) {
    unsafe {
        if BLN < NBL {
            BLOG[BLN] = ((id as u16) << 8) | b as u16;
        }
        BLN += 1;
    }
}
pub fn bl_len() -> usize {
    unsafe { BLN }
}
pub fn bl_get(i: usize) -> u16 {
    unsafe { BLOG[i] }
}

// ---------------------------------------------------------------------------------------------
// Model of the log facade's global max level (`log::set_max_level` / `log::max_level`).
// Used where the harness needs a schedule point at the moment the gate is written (C12) and to
// avoid the facade's atomics where they add nothing.
static mut GATE: usize = 0;
pub fn gate_set(level: usize) {
    unsafe { GATE = level }
}
pub fn gate_get() -> usize {
    unsafe { GATE }
}

// ---------------------------------------------------------------------------------------------
// E-clock: a sequence of instants (civil date/time fields + UTC offset in seconds) supplied by
// the harness; the in-crate stub for `chrono::Local::now` pops them in order (the last one
// repeats). Fields are kept as small integers so that no timestamp->date division is needed.
#[derive(Clone, Copy)]
pub struct Instant {
    pub y: i32,
    pub mo: u32,
    pub d: u32,
    pub h: u32,
    pub mi: u32,
    pub s: u32,
    pub off: i32,
}
pub const NCLOCK: usize = 6;
const I0: Instant = Instant { y: 2024, mo: 1, d: 1, h: 0, mi: 0, s: 0, off: 0 };
static mut CLOCK: [Instant; NCLOCK] = [I0; NCLOCK];
static mut CLOCK_N: usize = 0;
static mut CLOCK_POS: usize = 0;
static mut CLOCK_READS: usize = 0;
pub fn clock_push(i: Instant) {
    unsafe {
        if CLOCK_N < NCLOCK {
            CLOCK[CLOCK_N] = i;
            CLOCK_N += 1;
        }
    }
}
/// Next instant of the sequence; the last one repeats once the sequence is exhausted.
pub fn clock_next() -> Instant {
    unsafe {
        CLOCK_READS += 1;
        let p = if CLOCK_POS < CLOCK_N { CLOCK_POS } else if CLOCK_N > 0 { CLOCK_N - 1 } else { 0 };
        if CLOCK_POS < CLOCK_N {
            CLOCK_POS += 1;
        }
        CLOCK[p]
    }
}
pub fn clock_reads() -> usize {
    unsafe { CLOCK_READS }
}
/// Lexicographic comparison of the civil fields (valid for equal offsets).
pub fn instant_le(a: &Instant, b: &Instant) -> bool {
    (a.y, a.mo, a.d, a.h, a.mi, a.s) <= (b.y, b.mo, b.d, b.h, b.mi, b.s)
}

// ---------------------------------------------------------------------------------------------
// `RandomState::new()` reaches getrandom(2) through a weak symbol / raw syscall, which leaves the
// SipHash keys symbolic and the retry loop unbounded. The hash keys are irrelevant to every
// property (any keys give a correct map), so the stub fixes them to (0, 0).
pub fn stub_random_state() -> std::hash::RandomState {
    unsafe { std::mem::transmute::<[u64; 2], std::hash::RandomState>([0u64, 0u64]) }
}

// ---------------------------------------------------------------------------------------------
// libc-level models (need `-Z c-ffi`; only linked when the harness calls `link_all()`).
pub mod libc_model {
    use std::os::raw::{c_char, c_int, c_long, c_uint, c_void};

    pub static mut ERRNO: c_int = 0;
    #[no_mangle]
    pub unsafe extern "C" fn __errno_location() -> *mut c_int {
        &raw mut ERRNO
    }
    // raw syscalls (futex, statx, getrandom, ...) are "not available"
    #[no_mangle]
    pub unsafe extern "C" fn syscall(_num: c_long, _args: ...) -> c_long {
        ERRNO = 38; // ENOSYS
        -1
    }
    // CBMC's built-in pthread_key_create expects a plain pointer as destructor, Rust passes an
    // Option<fn>: own definitions with the Rust-side types. Single thread: a key is a slot.
    static mut TLS: [*mut c_void; 8] = [std::ptr::null_mut(); 8];
    static mut TLS_NEXT: c_uint = 1;
    #[no_mangle]
    pub unsafe extern "C" fn pthread_key_create(
        key: *mut c_uint,
        _dtor: Option<unsafe extern "C" fn(*mut c_void)>,
    ) -> c_int {
        *key = TLS_NEXT;
        TLS_NEXT += 1;
        0
    }
    #[no_mangle]
    pub unsafe extern "C" fn pthread_key_delete(_key: c_uint) -> c_int {
        0
    }
    #[no_mangle]
    pub unsafe extern "C" fn pthread_setspecific(key: c_uint, v: *const c_void) -> c_int {
        TLS[(key % 8) as usize] = v as *mut c_void;
        0
    }
    #[no_mangle]
    pub unsafe extern "C" fn pthread_getspecific(key: c_uint) -> *mut c_void {
        TLS[(key % 8) as usize]
    }

    // fd-level write model: records (fd, count) in the event log as 0x600 | fd<<4 | count
    #[no_mangle]
    pub unsafe extern "C" fn write(fd: c_int, _buf: *const c_void, count: usize) -> isize {
        super::ev_push(0x600 | ((fd as u32) & 0xf) << 4 | (count as u32 & 0xf));
        count as isize
    }
    #[no_mangle]
    pub unsafe extern "C" fn close(_fd: c_int) -> c_int {
        0
    }
    pub fn link() {
        let f7: unsafe extern "C" fn(c_int, *const c_void, usize) -> isize = write;
        let f8: unsafe extern "C" fn(c_int) -> c_int = close;
        std::hint::black_box((f7, f8));
        let f1: unsafe extern "C" fn() -> *mut c_int = __errno_location;
        let f2: unsafe extern "C" fn(c_long, ...) -> c_long = syscall;
        let f3: unsafe extern "C" fn(*mut c_uint, Option<unsafe extern "C" fn(*mut c_void)>) -> c_int = pthread_key_create;
        let f4: unsafe extern "C" fn(c_uint, *const c_void) -> c_int = pthread_setspecific;
        let f5: unsafe extern "C" fn(c_uint) -> *mut c_void = pthread_getspecific;
        let f6: unsafe extern "C" fn(c_uint) -> c_int = pthread_key_delete;
        std::hint::black_box((f1, f2, f3, f4, f5, f6));
    }
}
pub fn link_all() {
    libc_model::link();
}

// ---------------------------------------------------------------------------------------------
// std::collections::HashMap (hashbrown: SSE2 group probing over heap control bytes) is out of
// reach of CBMC's symbolic execution even for one concrete insert (probed: no result in 10 min),
// and Kani 0.68 rejects generic stubs for `HashMap::get`. In the *build copy* of the sources the
// `use ...collections::HashMap` imports are therefore redirected to this association-list model
// with the same observable contract (unique keys, insert replaces, get/remove by Borrow-equality,
// unspecified iteration order - here: insertion order). Part of the environment model.
pub mod hm {
    use std::borrow::Borrow;
    #[derive(Clone, Debug)]
    pub struct HashMap<K, V> {
        items: Vec<(K, V)>,
    }
    impl<K, V> Default for HashMap<K, V> {
        fn default() -> Self {
            HashMap { items: Vec::new() }
        }
    }
    impl<K: Eq, V> HashMap<K, V> {
        pub fn new() -> Self {
            HashMap { items: Vec::new() }
        }
        pub fn insert(&mut self, k: K, v: V) -> Option<V> {
            let mut i = 0;
            while i < self.items.len() {
                if self.items[i].0 == k {
                    return Some(std::mem::replace(&mut self.items[i].1, v));
                }
                i += 1;
            }
            self.items.push((k, v));
            None
        }
        /// Harness set-up only: append an entry whose key the caller knows to be new (no
        /// comparison, hence no "replace and drop the old value" path for symex to explore).
        pub fn push_unique(&mut self, k: K, v: V) {
            self.items.push((k, v));
        }
        pub fn get<Q: ?Sized + Eq>(&self, k: &Q) -> Option<&V>
        where
            K: Borrow<Q>,
        {
            let mut i = 0;
            while i < self.items.len() {
                if self.items[i].0.borrow() == k {
                    return Some(&self.items[i].1);
                }
                i += 1;
            }
            None
        }
        pub fn remove<Q: ?Sized + Eq>(&mut self, k: &Q) -> Option<V>
        where
            K: Borrow<Q>,
        {
            let mut i = 0;
            while i < self.items.len() {
                if self.items[i].0.borrow() == k {
                    return Some(self.items.remove(i).1);
                }
                i += 1;
            }
            None
        }
        pub fn contains_key<Q: ?Sized + Eq>(&self, k: &Q) -> bool
        where
            K: Borrow<Q>,
        {
            self.get(k).is_some()
        }
        pub fn is_empty(&self) -> bool {
            self.items.is_empty()
        }
        pub fn len(&self) -> usize {
            self.items.len()
        }
        pub fn values(&self) -> impl Iterator<Item = &V> {
            self.items.iter().map(|kv| &kv.1)
        }
        pub fn keys(&self) -> impl Iterator<Item = &K> {
            self.items.iter().map(|kv| &kv.0)
        }
        pub fn iter(&self) -> impl Iterator<Item = (&K, &V)> {
            self.items.iter().map(|kv| (&kv.0, &kv.1))
        }
    }
    impl<K, V> IntoIterator for HashMap<K, V> {
        type Item = (K, V);
        type IntoIter = std::vec::IntoIter<(K, V)>;
        fn into_iter(self) -> Self::IntoIter {
            self.items.into_iter()
        }
    }
}

// ---------------------------------------------------------------------------------------------
// regex::Regex (feature `textfilter`) is an external engine whose matching loop is out of reach and
// not the subject of any property: the properties only say that a record passes "when its message
// matches the regular expression". In the *build copy* the `use regex::Regex` imports are redirected
// to this model: a compiled pattern is an opaque identity (`id`), `is_match` is an uninterpreted
// predicate whose answer per id the harness chooses (symbolically) and which records what it was
// asked about (how often, which pattern, which text). `Regex::new` succeeds iff the pattern does
// not start with '(' (the harness menus use "(" as the malformed pattern) and derives the id from
// the first byte, so that distinct patterns stay distinguishable. Part of the environment model.
pub mod rx {
    static mut ANSWER: [bool; 4] = [false; 4];
    static mut CALLS: u64 = 0;
    static mut LAST_ID: u8 = 0;
    static mut LAST_LEN: usize = 0;
    static mut LAST_TEXT: [u8; 8] = [0; 8];
    // the message text the harness logs (length, first byte); usize::MAX = any text
    static mut MSG_LEN: usize = usize::MAX;
    static mut MSG_FIRST: u8 = 0;
    pub fn set_answer(id: u8, a: bool) {
        unsafe { ANSWER[(id % 4) as usize] = a }
    }
    /// The predicate is "answer[id] on the message the harness logs, the opposite answer on every
    /// other text": asking about the wrong text (e.g. an empty string) changes the outcome.
    pub fn set_message(len: usize, first: u8) {
        unsafe {
            MSG_LEN = len;
            MSG_FIRST = first;
        }
    }
    pub fn calls() -> u64 {
        unsafe { CALLS }
    }
    pub fn last_id() -> u8 {
        unsafe { LAST_ID }
    }
    pub fn last_len() -> usize {
        unsafe { LAST_LEN }
    }
    pub fn last_text(i: usize) -> u8 {
        unsafe { LAST_TEXT[i] }
    }
    #[derive(Clone, Debug)]
    pub struct Regex {
        pub id: u8,
    }
    #[derive(Clone, Debug)]
    pub struct Error;
    impl std::fmt::Display for Error {
        fn fmt(&self, f: &mut std::fmt::Formatter<'_>) -> std::fmt::Result {
            f.write_str("regex model: malformed pattern")
        }
    }
    impl std::error::Error for Error {}
    impl std::fmt::Display for Regex {
        fn fmt(&self, f: &mut std::fmt::Formatter<'_>) -> std::fmt::Result {
            f.write_str("regex-model")
        }
    }
    impl Regex {
        pub fn new(re: &str) -> Result<Regex, Error> {
            let b = re.as_bytes();
            if !b.is_empty() && b[0] == b'(' {
                Err(Error)
            } else {
                Ok(Regex { id: if b.is_empty() { 0 } else { b[0] % 4 } })
            }
        }
        pub fn is_match(&self, text: &str) -> bool {
            unsafe {
                CALLS += 1;
                LAST_ID = self.id;
                LAST_LEN = text.len();
                let b = text.as_bytes();
                let mut i = 0;
                while i < 8 && i < b.len() {
                    LAST_TEXT[i] = b[i];
                    i += 1;
                }
                let a = ANSWER[(self.id % 4) as usize];
                if MSG_LEN == usize::MAX || (b.len() == MSG_LEN && (b.is_empty() || b[0] == MSG_FIRST)) {
                    a
                } else {
                    !a
                }
            }
        }
        pub fn as_str(&self) -> &str {
            "regex-model"
        }
    }
}

// ---------------------------------------------------------------------------------------------
/// `&str` view of harness-built bytes without running std's UTF-8 validator symbolically (its
/// word-at-a-time fast path with `align_offset` is expensive in CBMC). The caller guarantees
/// well-formedness by explicit assumptions on the bytes (see `utf8_ok_c3a9`).
pub fn str_from(b: &[u8]) -> &str {
    unsafe { std::str::from_utf8_unchecked(b) }
}
/// Validity predicate for byte strings over ASCII plus the single two-byte character U+00E9
/// (0xC3 0xA9): 0xC3 must be followed by 0xA9, 0xA9 must follow 0xC3, everything else < 0x80.
pub fn utf8_ok_c3a9(b: &[u8]) -> bool {
    let mut i = 0;
    let mut ok = true;
    while i < b.len() {
        let c = b[i];
        if c == 0xC3 {
            if !(i + 1 < b.len() && b[i + 1] == 0xA9) {
                ok = false;
            }
        } else if c == 0xA9 {
            if !(i > 0 && b[i - 1] == 0xC3) {
                ok = false;
            }
        } else if c >= 0x80 {
            ok = false;
        }
        i += 1;
    }
    ok
}

// ---------------------------------------------------------------------------------------------
// util::buffer_with uses `thread_local!` with a destructor; registering the destructor goes
// through a weak libc symbol that CBMC leaves undefined. Model: one process-wide RefCell with the
// same borrow semantics (single thread), so the "already borrowed -> recursive logging" branch of
// the callers stays reachable.
static mut TLBUF: Option<std::cell::RefCell<Vec<u8>>> = None;
pub fn buffer_with_model<F>(f: F)
where
    F: FnOnce(&std::cell::RefCell<Vec<u8>>),
{
    unsafe {
        if TLBUF.is_none() {
            TLBUF = Some(std::cell::RefCell::new(Vec::with_capacity(200)));
        }
        f(TLBUF.as_ref().unwrap())
    }
}
pub fn tlbuf_len() -> usize {
    unsafe { TLBUF.as_ref().map_or(0, |c| c.borrow().len()) }
}

pub mod stdmodels;
pub use stdmodels::{pathm, set_extension_model, strm};

// Generic front ends of the string models (same signatures as the std methods they replace).
// Patterns other than a string / an ASCII char are outside the model and reported as a failure.
fn pat_bytes<'a, P: std::str::pattern::Pattern + 'a>(pat: &'a P, one: &'a mut [u8; 1]) -> &'a [u8] {
    match pat.as_utf8_pattern() {
        Some(std::str::pattern::Utf8Pattern::StringPattern(b)) => b.as_bytes(),
        Some(std::str::pattern::Utf8Pattern::CharPattern(c)) if c.is_ascii() => {
            one[0] = c as u8;
            &one[..]
        }
        _ => panic!("str pattern model: pattern kind outside the model"),
    }
}
pub fn str_find_model<P: std::str::pattern::Pattern>(s: &str, pat: P) -> Option<usize> {
    let mut one = [0u8; 1];
    let n = pat_bytes(&pat, &mut one);
    stdmodels::strm::find(s.as_bytes(), n)
}
pub fn str_contains_model<P: std::str::pattern::Pattern>(s: &str, pat: P) -> bool {
    let mut one = [0u8; 1];
    let n = pat_bytes(&pat, &mut one);
    stdmodels::strm::find(s.as_bytes(), n).is_some()
}
// `OsStr::to_string_lossy` / `Path::to_string_lossy` for ASCII content (std runs Utf8Chunks): the
// identity. Non-ASCII content is outside the model and reported as a failure.
pub fn osstr_to_string_lossy_model(s: &std::ffi::OsStr) -> std::borrow::Cow<'_, str> {
    use std::os::unix::ffi::OsStrExt;
    let b = s.as_bytes();
    assert!(stdmodels::strm::is_ascii(b), "to_string_lossy model: non-ASCII content");
    std::borrow::Cow::Borrowed(unsafe { std::str::from_utf8_unchecked(b) })
}
pub fn path_to_string_lossy_model(p: &std::path::Path) -> std::borrow::Cow<'_, str> {
    osstr_to_string_lossy_model(p.as_os_str())
}

// ---------------------------------------------------------------------------------------------
/// A `std::fs::Metadata` value for the metadata model: its fields are never read by the real
/// accessors in the harnesses (those are stubbed: `Metadata::len`), it only has to exist.
pub fn zeroed_metadata() -> std::fs::Metadata {
    unsafe { std::mem::zeroed() }
}
/// A heap object of type T with unspecified contents, for values that are only moved around and
/// never inspected or dropped by the code under test (e.g. a compiled regex inside a spec).
pub fn opaque_box<T>() -> Box<T> {
    unsafe {
        let layout = std::alloc::Layout::new::<T>();
        Box::from_raw(std::alloc::alloc(layout) as *mut T)
    }
}

/// A `std::fs::File` over model file descriptor `fd` (never a real descriptor: the libc `write`
/// / `close` models above receive it).
pub fn file_from_fd(fd: i32) -> std::fs::File {
    use std::os::fd::FromRawFd;
    unsafe { std::fs::File::from_raw_fd(fd) }
}
