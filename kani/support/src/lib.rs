//! Support crate for the Kani harnesses over flexi_logger.
//!
//! flexi_logger is `#![forbid(unsafe_code)]`; everything that needs `unsafe`, `static mut` or
//! `#[no_mangle]` (environment model: clock cell, error-report recorder, gate model, model file
//! system, libc fd-level models) lives here. Every function in this crate that is used as a
//! `#[kani::stub]` replacement is part of the claim of the harness that uses it (DESIGN.md 3.3).
#![feature(c_variadic)]
#![allow(non_camel_case_types, unused, static_mut_refs, clippy::all)]

pub mod fsmodel;

// ---------------------------------------------------------------------------------------------
// catch_unwind: Kani 0.68 ICEs when `core::intrinsics::catch_unwind` is reachable. Under Kani's
// panic=abort model `catch_unwind(f)` is exactly `Ok(f())`.
pub mod reexp {
    pub use std::panic::catch_unwind;
}
pub fn stub_cu<F: FnOnce() -> R + std::panic::UnwindSafe, R>(f: F) -> std::thread::Result<R> {
    Ok(f())
}

// ---------------------------------------------------------------------------------------------
// Generic small cells that in-crate harness code (no `unsafe` allowed there) uses as globals.
pub const NCELL: usize = 16;
static mut CELLS: [u64; NCELL] = [0; NCELL];
pub fn cell_get(i: usize) -> u64 {
    unsafe { CELLS[i] }
}
pub fn cell_set(i: usize, v: u64) {
    unsafe { CELLS[i] = v }
}
pub fn cell_inc(i: usize) -> u64 {
    unsafe {
        CELLS[i] += 1;
        CELLS[i]
    }
}

// Small append-only event log (tags), for ordering oracles.
pub const NLOG: usize = 12;
static mut EVLOG: [u32; NLOG] = [0; NLOG];
static mut EVN: usize = 0;
pub fn ev_push(v: u32) {
    unsafe {
        if EVN < NLOG {
            EVLOG[EVN] = v;
        }
        EVN += 1;
    }
}
pub fn ev_len() -> usize {
    unsafe { EVN }
}
pub fn ev_get(i: usize) -> u32 {
    unsafe { EVLOG[i] }
}

// ---------------------------------------------------------------------------------------------
// Model of the log facade's global max level (`log::set_max_level` / `log::max_level`).
// Used where the harness needs a schedule point at the moment the gate is written (C12) and to
// avoid the facade's atomics where they add nothing.
static mut GATE: usize = 0;
pub fn gate_set(level: usize) {
    unsafe { GATE = level }
}
pub fn gate_get() -> usize {
    unsafe { GATE }
}
