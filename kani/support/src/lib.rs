//! Support crate for the Kani harnesses over flexi_logger.
//!
//! flexi_logger is `#![forbid(unsafe_code)]`; everything that needs `unsafe`, `static mut` or
//! `#[no_mangle]` (environment model: clock cell, error-report recorder, gate model, model file
//! system, libc fd-level models) lives here. Every function in this crate that is used as a
//! `#[kani::stub]` replacement is part of the claim of the harness that uses it (DESIGN.md 3.3).
#![feature(c_variadic)]
#![allow(non_camel_case_types, unused, static_mut_refs, clippy::all)]

pub mod fsmodel;

// ---------------------------------------------------------------------------------------------
// catch_unwind: Kani 0.68 ICEs when `core::intrinsics::catch_unwind` is reachable. Under Kani's
// panic=abort model `catch_unwind(f)` is exactly `Ok(f())`.
pub mod reexp {
    pub use std::panic::catch_unwind;
}
pub fn stub_cu<F: FnOnce() -> R + std::panic::UnwindSafe, R>(f: F) -> std::thread::Result<R> {
    Ok(f())
}

// ---------------------------------------------------------------------------------------------
// Generic small cells that in-crate harness code (no `unsafe` allowed there) uses as globals.
pub const NCELL: usize = 16;
static mut CELLS: [u64; NCELL] = [0; NCELL];
pub fn cell_get(i: usize) -> u64 {
    unsafe { CELLS[i] }
}
pub fn cell_set(i: usize, v: u64) {
    unsafe { CELLS[i] = v }
}
pub fn cell_inc(i: usize) -> u64 {
    unsafe {
        CELLS[i] += 1;
        CELLS[i]
    }
}

// Small append-only event log (tags), for ordering oracles.
pub const NLOG: usize = 12;
static mut EVLOG: [u32; NLOG] = [0; NLOG];
static mut EVN: usize = 0;
pub fn ev_push(v: u32) {
    unsafe {
        if EVN < NLOG {
            EVLOG[EVN] = v;
        }
        EVN += 1;
    }
}
pub fn ev_len() -> usize {
    unsafe { EVN }
}
pub fn ev_get(i: usize) -> u32 {
    unsafe { EVLOG[i] }
}

// ---------------------------------------------------------------------------------------------
// Model of the log facade's global max level (`log::set_max_level` / `log::max_level`).
// Used where the harness needs a schedule point at the moment the gate is written (C12) and to
// avoid the facade's atomics where they add nothing.
static mut GATE: usize = 0;
pub fn gate_set(level: usize) {
    unsafe { GATE = level }
}
pub fn gate_get() -> usize {
    unsafe { GATE }
}

// ---------------------------------------------------------------------------------------------
// E-clock: a sequence of instants (civil date/time fields + UTC offset in seconds) supplied by
// the harness; the in-crate stub for `chrono::Local::now` pops them in order (the last one
// repeats). Fields are kept as small integers so that no timestamp->date division is needed.
#[derive(Clone, Copy)]
pub struct Instant {
    pub y: i32,
    pub mo: u32,
    pub d: u32,
    pub h: u32,
    pub mi: u32,
    pub s: u32,
    pub off: i32,
}
pub const NCLOCK: usize = 6;
const I0: Instant = Instant { y: 2024, mo: 1, d: 1, h: 0, mi: 0, s: 0, off: 0 };
static mut CLOCK: [Instant; NCLOCK] = [I0; NCLOCK];
static mut CLOCK_N: usize = 0;
static mut CLOCK_POS: usize = 0;
static mut CLOCK_READS: usize = 0;
pub fn clock_push(i: Instant) {
    unsafe {
        if CLOCK_N < NCLOCK {
            CLOCK[CLOCK_N] = i;
            CLOCK_N += 1;
        }
    }
}
/// Next instant of the sequence; the last one repeats once the sequence is exhausted.
pub fn clock_next() -> Instant {
    unsafe {
        CLOCK_READS += 1;
        let p = if CLOCK_POS < CLOCK_N { CLOCK_POS } else if CLOCK_N > 0 { CLOCK_N - 1 } else { 0 };
        if CLOCK_POS < CLOCK_N {
            CLOCK_POS += 1;
        }
        CLOCK[p]
    }
}
pub fn clock_reads() -> usize {
    unsafe { CLOCK_READS }
}
/// Lexicographic comparison of the civil fields (valid for equal offsets).
pub fn instant_le(a: &Instant, b: &Instant) -> bool {
    (a.y, a.mo, a.d, a.h, a.mi, a.s) <= (b.y, b.mo, b.d, b.h, b.mi, b.s)
}
