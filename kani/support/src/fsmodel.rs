//! Model file system (filled in below).
