//! Byte-wise models of std path functions used as `#[kani::stub]` replacements (see DESIGN.md 2).
//! No `unsafe`, no nightly features: this file is also compiled natively by
//! `tools/stdmodels_selftest.rs`, which compares every model with the real std function on an
//! exhaustive corpus of short paths and on the names of the harness menus.
#![allow(unused, clippy::all)]

// ---------------------------------------------------------------------------------------------
/// Model of `std::path::PathBuf::set_extension`. The real one computes the truncation point from
/// pointer *addresses* (`file_stem[len..].as_ptr().addr() - start`), which CBMC turns into a
/// symbolic length for everything downstream (probed: no result in 15 min for one concrete call).
/// Byte-wise model with the documented semantics for paths whose last component is a normal file
/// name without trailing separator (anything else is reported as a failure, never mis-modelled):
/// strip from the last '.' of the file name (a leading dot is not an extension), then append
/// "." + extension unless the extension is empty. Validated natively against std by
/// `replay/` (`set_extension_model` self-test) on the names the harness menus use.
pub fn set_extension_model<S: AsRef<std::ffi::OsStr>>(p: &mut std::path::PathBuf, ext: S) -> bool {
    use std::os::unix::ffi::{OsStrExt, OsStringExt};
    let ext = ext.as_ref().as_bytes();
    let b = p.as_os_str().as_bytes();
    let n = b.len();
    let mut start = 0;
    let mut i = 0;
    while i < n {
        if b[i] == b'/' {
            start = i + 1;
        }
        i += 1;
    }
    assert!(start < n, "set_extension model: path without file name");
    let name = &b[start..n];
    assert!(!(name.len() <= 2 && name[0] == b'.' && name[name.len() - 1] == b'.'), "set_extension model: '.' or '..'");
    let mut dot = name.len();
    let mut i = 1;
    while i < name.len() {
        if name[i] == b'.' {
            dot = i;
        }
        i += 1;
    }
    let stem_end = start + dot;
    let mut v: Vec<u8> = Vec::with_capacity(stem_end + 1 + ext.len());
    let mut i = 0;
    while i < stem_end {
        v.push(b[i]);
        i += 1;
    }
    if !ext.is_empty() {
        v.push(b'.');
        let mut i = 0;
        while i < ext.len() {
            v.push(ext[i]);
            i += 1;
        }
    }
    *p = std::path::PathBuf::from(std::ffi::OsString::from_vec(v));
    true
}

// ---------------------------------------------------------------------------------------------
// Byte-wise models of `Path::file_name` / `file_stem` / `extension` (Unix). std answers them
// through the `Components` state machine (prefix handling, double-ended parsing, `rposition`
// closures): one call on a 20-byte concrete path costs CBMC tens of seconds, a function that makes
// ten of them does not finish. The models below implement the documented results directly for
// paths without trailing separator whose last component is not "." (anything else is reported as
// a failure). They are validated natively against std (`replay/`: `path_models` self-test) on all
// names of the harness menus plus a generated corpus. Part of the environment model.
pub mod pathm {
    use std::ffi::OsStr;
    use std::os::unix::ffi::OsStrExt;
    use std::path::Path;
    fn name_start(b: &[u8]) -> usize {
        let mut start = 0;
        let mut i = 0;
        while i < b.len() {
            if b[i] == b'/' {
                start = i + 1;
            }
            i += 1;
        }
        start
    }
    pub fn file_name(p: &Path) -> Option<&OsStr> {
        let b = p.as_os_str().as_bytes();
        if b.is_empty() {
            return None;
        }
        assert!(b[b.len() - 1] != b'/', "path model: trailing separator");
        let start = name_start(b);
        let name = &b[start..];
        assert!(!(name.len() == 1 && name[0] == b'.'), "path model: '.' component");
        if name.len() == 2 && name[0] == b'.' && name[1] == b'.' {
            return None;
        }
        Some(OsStr::from_bytes(name))
    }
    // (before, after) of std's rsplit_file_at_dot
    fn split(name: &[u8]) -> (Option<&[u8]>, Option<&[u8]>) {
        if name.len() == 2 && name[0] == b'.' && name[1] == b'.' {
            return (Some(name), None);
        }
        let mut dot = usize::MAX;
        let mut i = 0;
        while i < name.len() {
            if name[i] == b'.' {
                dot = i;
            }
            i += 1;
        }
        if dot == usize::MAX {
            // no dot: std's rsplitn yields the whole name as `after`, before = None
            (None, Some(name))
        } else if dot == 0 {
            (Some(name), None)
        } else {
            (Some(&name[..dot]), Some(&name[dot + 1..]))
        }
    }
    pub fn file_stem(p: &Path) -> Option<&OsStr> {
        let name = file_name(p)?.as_bytes();
        let (before, after) = split(name);
        before.or(after).map(OsStr::from_bytes)
    }
    pub fn extension(p: &Path) -> Option<&OsStr> {
        let name = file_name(p)?.as_bytes();
        let (before, after) = split(name);
        before.and(after).map(OsStr::from_bytes)
    }
}



// ---------------------------------------------------------------------------------------------
// Byte-wise models of `str::find(&str)` / `str::contains(&str)` (session 3). std runs the two-way
// string searcher (critical factorisation, period, byteset): on a 20-byte haystack that CBMC does
// not know to be constant this does not finish. The model is the naive search with the documented
// result: byte offset of the first match, None if there is none; an empty needle matches at 0.
pub mod strm {
    pub fn find(h: &[u8], n: &[u8]) -> Option<usize> {
        if n.len() > h.len() {
            return None;
        }
        let mut i = 0;
        while i + n.len() <= h.len() {
            let mut j = 0;
            let mut eq = true;
            while j < n.len() {
                if h[i + j] != n[j] {
                    eq = false;
                    break;
                }
                j += 1;
            }
            if eq {
                return Some(i);
            }
            i += 1;
        }
        None
    }
    pub fn is_ascii(b: &[u8]) -> bool {
        let mut i = 0;
        while i < b.len() {
            if b[i] >= 0x80 {
                return false;
            }
            i += 1;
        }
        true
    }
}
