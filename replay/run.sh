#!/bin/bash
# usage: run.sh <replayer> <cex.json>; exit 1 = violation reproduced against the real build of the
# repository under check (VERIF_REPO, default /repo), 0 = not reproduced, anything else = replayer
# error. Builds against the repository's current working tree.
REPO=${VERIF_REPO:-/repo}
KEY=$(echo "$REPO" | md5sum | cut -c1-8)
B=/verif/.work/replay-build-$KEY
mkdir -p $B
rsync -a --delete --exclude run.sh /verif/replay/ $B/
sed -i "s#path = \"/repo\"#path = \"$REPO\"#" $B/Cargo.toml
cp $REPO/Cargo.lock $B/Cargo.lock 2>/dev/null
cd $B || exit 3
export CARGO_NET_OFFLINE=true
export CARGO_TARGET_DIR=/verif/.work/replay-target-$KEY
cargo build --offline -q 2>/verif/.work/replay-build.log || { tail -20 /verif/.work/replay-build.log; exit 3; }
$CARGO_TARGET_DIR/debug/verif_replay "$@"
rc=$?
if [ "$REPO" != "/repo" ]; then rm -rf $B $CARGO_TARGET_DIR; fi
exit $rc
