#!/bin/bash
# usage: run.sh <replayer> <cex.json>; exit 1 = violation reproduced against the real build of /repo,
# 0 = not reproduced, anything else = replayer error. Builds against /repo's current working tree.
cd /verif/replay || exit 3
export CARGO_NET_OFFLINE=true
export CARGO_TARGET_DIR=/verif/.work/replay-target
cargo build --offline -q 2>/verif/.work/replay-build.log || { tail -20 /verif/.work/replay-build.log; exit 3; }
exec /verif/.work/replay-target/debug/verif_replay "$@"
