//! Native replayers: each takes the counterexample JSON written by ./check (the solver's concrete
//! values in `kani::any()` order) and re-runs the scenario against the real build of /repo through
//! its public API. Exit 1 = reproduced, 0 = not reproduced.
use flexi_logger::writers::LogWriter;
use flexi_logger::{DeferredNow, LogSpecification, Logger};
use log::{Level, LevelFilter, Log};
use std::sync::atomic::{AtomicUsize, Ordering};
use std::sync::Arc;

fn concrete_vals(path: &str) -> Vec<Vec<u8>> {
    let txt = std::fs::read_to_string(path).expect("read cex");
    let key = "\"concrete_vals\":";
    let start = txt.find(key).expect("concrete_vals") + key.len();
    let rest = &txt[start..];
    let mut out = Vec::new();
    let mut depth = 0;
    let mut cur: Vec<u8> = Vec::new();
    let mut num = String::new();
    for ch in rest.chars() {
        match ch {
            '[' => {
                depth += 1;
                if depth == 2 {
                    cur = Vec::new();
                }
            }
            ']' => {
                if !num.is_empty() {
                    cur.push(num.parse::<u16>().unwrap() as u8);
                    num.clear();
                }
                if depth == 2 {
                    out.push(cur.clone());
                }
                depth -= 1;
                if depth == 0 {
                    break;
                }
            }
            c if c.is_ascii_digit() => num.push(c),
            ',' => {
                if !num.is_empty() {
                    cur.push(num.parse::<u16>().unwrap() as u8);
                    num.clear();
                }
            }
            'n' if depth == 0 => break, // null
            _ => {}
        }
    }
    out
}
fn u64_of(v: &[u8]) -> u64 {
    let mut b = [0u8; 8];
    b[..v.len().min(8)].copy_from_slice(&v[..v.len().min(8)]);
    u64::from_le_bytes(b)
}
fn level_of(i: u8) -> Level {
    match i {
        0 => Level::Error,
        1 => Level::Warn,
        2 => Level::Info,
        3 => Level::Debug,
        _ => Level::Trace,
    }
}
fn filter_of(r: u64) -> LevelFilter {
    match r {
        0 => LevelFilter::Off,
        1 => LevelFilter::Error,
        2 => LevelFilter::Warn,
        3 => LevelFilter::Info,
        4 => LevelFilter::Debug,
        _ => LevelFilter::Trace,
    }
}

struct CountingWriter {
    n: Arc<AtomicUsize>,
    ceiling: LevelFilter,
}
impl LogWriter for CountingWriter {
    fn write(&self, _now: &mut DeferredNow, record: &log::Record) -> std::io::Result<()> {
        if record.level() <= self.ceiling {
            self.n.fetch_add(1, Ordering::SeqCst);
        }
        Ok(())
    }
    fn flush(&self) -> std::io::Result<()> {
        Ok(())
    }
    fn max_log_level(&self) -> LevelFilter {
        self.ceiling
    }
}

/// c02_enabled_brace_ceiling: vals = [ceiling of A: u64][level index: u8]
fn enabled_brace_ceiling(vals: &[Vec<u8>]) -> i32 {
    let ceiling = filter_of(u64_of(&vals[0]));
    let level = level_of(vals[1][0]);
    let n = Arc::new(AtomicUsize::new(0));
    let (logger, _handle) = Logger::with(LogSpecification::off())
        .do_not_log()
        .add_writer("A", Box::new(CountingWriter { n: Arc::clone(&n), ceiling }))
        .build()
        .expect("build");
    let md = log::Metadata::builder().level(level).target("{A}").build();
    let en = logger.enabled(&md);
    logger.log(&log::Record::builder().level(level).target("{A}").args(format_args!("m")).build());
    let written = n.load(Ordering::SeqCst);
    println!("ceiling={ceiling:?} level={level:?} enabled()={en} written_by_A={written}");
    if written > 0 && !en {
        println!("REPRODUCED: enabled() answered false for a record that writer A wrote");
        1
    } else {
        0
    }
}

fn json_str(path: &str, key: &str) -> Option<String> {
    let txt = std::fs::read_to_string(path).ok()?;
    let k = format!("\"{key}\":");
    let start = txt.find(&k)? + k.len();
    let rest = txt[start..].trim_start();
    let rest = rest.strip_prefix('"')?;
    let end = rest.find('"')?;
    Some(rest[..end].to_string())
}

/// c10_target_*: the target text is concrete per harness instance (table below); level = last value.
fn target_no_panic(path: &str, vals: &[Vec<u8>]) -> i32 {
    let harness = json_str(path, "harness").unwrap_or_default();
    let table: &[(&str, &str)] = &[
        ("c10_target_lone_open", "{"),
        ("c10_target_lone_open_enabled", "{"),
        ("c10_target_empty_braces", "{}"),
        ("c10_target_open_multibyte", "{\u{e9}"),
        ("c10_target_unbalanced_multibyte", "{A\u{e9}"),
        ("c10_target_unbalanced_multibyte_enabled", "{A\u{e9}"),
        ("c10_target_multibyte_name", "{\u{e9}}"),
        ("c10_target_commas_only", "{,}"),
        ("c10_target_unbalanced", "{A"),
        ("c10_target_lone_close", "}"),
        ("c10_target_empty", ""),
    ];
    let target = match table.iter().find(|(h, _)| *h == harness) {
        Some((_, t)) => t.to_string(),
        None => {
            eprintln!("no target registered for harness {harness}");
            return 3;
        }
    };
    let level = vals.last().map(|v| level_of(v[0])).unwrap_or(Level::Info);
    let n = Arc::new(AtomicUsize::new(0));
    let (logger, _handle) = Logger::with(LogSpecification::info())
        .do_not_log()
        .add_writer("A", Box::new(CountingWriter { n: Arc::clone(&n), ceiling: LevelFilter::Trace }))
        .build()
        .expect("build");
    let t2 = target.clone();
    let r = std::panic::catch_unwind(std::panic::AssertUnwindSafe(|| {
        let md = log::Metadata::builder().level(level).target(&t2).build();
        let _ = logger.enabled(&md);
        logger.log(&log::Record::builder().level(level).target(&t2).args(format_args!("m")).build());
    }));
    println!("target={target:?} level={level:?} panicked={}", r.is_err());
    if r.is_err() {
        println!("REPRODUCED: log()/enabled() panicked for target {target:?}");
        1
    } else {
        0
    }
}

/// c12_two_setters: vals = a0,d0,aa,da,ab,db (u64 ranks 0..5), pos (u8).
/// The window between "spec updated" and "gate updated" of set_new_spec(A) is entered natively
/// through a registered additional writer: WritersHandle::reconfigure asks every additional
/// writer for its max_log_level() exactly there. When armed, that call lets a second thread run
/// set_new_spec(B) (handle clone) and waits for it (bounded) - if the implementation holds the
/// spec lock across the window the second thread blocks and simply finishes afterwards.
fn two_setters(vals: &[Vec<u8>]) -> i32 {
    use flexi_logger::LoggerHandle;
    use std::sync::mpsc;
    use std::sync::Mutex;
    let r: Vec<u64> = vals.iter().take(6).map(|v| u64_of(v)).collect();
    let (aa, da, ab, db) = (r[2], r[3], r[4], r[5]);
    let spec_of = |a: u64, d: u64| {
        let mut b = LogSpecification::builder();
        b.default(filter_of(d)).module("a", filter_of(a));
        b.build()
    };
    struct WindowWriter {
        armed: std::sync::atomic::AtomicBool,
        go: Mutex<Option<mpsc::Sender<()>>>,
        done: Mutex<Option<mpsc::Receiver<()>>>,
    }
    impl LogWriter for WindowWriter {
        fn write(&self, _now: &mut DeferredNow, _r: &log::Record) -> std::io::Result<()> {
            Ok(())
        }
        fn flush(&self) -> std::io::Result<()> {
            Ok(())
        }
        fn max_log_level(&self) -> LevelFilter {
            if self.armed.swap(false, Ordering::SeqCst) {
                if let Some(tx) = self.go.lock().unwrap().take() {
                    tx.send(()).ok();
                }
                if let Some(rx) = self.done.lock().unwrap().as_ref() {
                    rx.recv_timeout(std::time::Duration::from_millis(400)).ok();
                }
            }
            LevelFilter::Off
        }
    }
    let (go_tx, go_rx) = mpsc::channel::<()>();
    let (done_tx, done_rx) = mpsc::channel::<()>();
    let w = Box::new(WindowWriter {
        armed: std::sync::atomic::AtomicBool::new(false),
        go: Mutex::new(Some(go_tx)),
        done: Mutex::new(Some(done_rx)),
    });
    let wptr: &'static WindowWriter = unsafe { &*(&*w as *const WindowWriter) };
    let (logger, h1): (Box<dyn Log>, LoggerHandle) =
        Logger::with(spec_of(r[0], r[1])).do_not_log().add_writer("W", w).build().expect("build");
    let h2 = h1.clone();
    let sb = spec_of(ab, db);
    let t2 = std::thread::spawn(move || {
        go_rx.recv().ok();
        h2.set_new_spec(sb);
        done_tx.send(()).ok();
        std::mem::forget(h2); // a dropped clone would shut the writers down
    });
    wptr.armed.store(true, Ordering::SeqCst);
    h1.set_new_spec(spec_of(aa, da));
    // if the window was never entered (an implementation that does not consult the writers on this
    // path), release the second thread now: dropping the sender ends its recv()
    drop(wptr.go.lock().unwrap().take());
    t2.join().ok();
    // observe the final spec through enabled() on plain targets and the facade's gate
    let rank = |target: &str| {
        let mut r = 0;
        for (i, l) in [Level::Error, Level::Warn, Level::Info, Level::Debug, Level::Trace].iter().enumerate() {
            if logger.enabled(&log::Metadata::builder().level(*l).target(target).build()) {
                r = i as u64 + 1;
            }
        }
        r
    };
    let (fa, fd) = (rank("ab"), rank("b"));
    let gate = log::max_level() as usize as u64;
    println!("A=(a={aa},default={da}) B=(a={ab},default={db}) final spec=(a={fa},default={fd}) gate={gate}");
    std::mem::forget(h1);
    let whole = (fa, fd) == (aa, da) || (fa, fd) == (ab, db);
    if !whole || gate < fa.max(fd) {
        println!("REPRODUCED: final spec/gate inconsistent (gate admits up to {gate}, spec enables up to {})", fa.max(fd));
        return 1;
    }
    // The deterministic window (inside reconfigure) did not show it. Schedule points that lie
    // *between two lock acquisitions* cannot be forced through the public API: race two real
    // threads for a bounded time and check the same post-condition after every round.
    // Specifications padded with many switched-off dummy modules decide identically for the observed
    // targets and have the same maximum level, but make max_level() / clone() slow enough that two
    // racing calls overlap reliably.
    let big_spec_of = |a: u64, d: u64| {
        let mut b = LogSpecification::builder();
        b.default(filter_of(d)).module("a", filter_of(a));
        for i in 0..20000 {
            b.module(format!("zz::pad{i}"), LevelFilter::Off);
        }
        b.build()
    };
    let deadline = std::time::Instant::now() + std::time::Duration::from_secs(25);
    let mut rounds = 0u64;
    while std::time::Instant::now() < deadline {
        rounds += 1;
        // start every round from the initial specification of the counterexample
        let (logger2, h1) = Logger::with(big_spec_of(r[0], r[1])).do_not_log().build().expect("build");
        let h2 = h1.clone();
        let barrier = Arc::new(std::sync::Barrier::new(2));
        let b2 = Arc::clone(&barrier);
        let sb = big_spec_of(ab, db);
        let sa = big_spec_of(aa, da);
        let t = std::thread::spawn(move || {
            b2.wait();
            h2.set_new_spec(sb);
            std::mem::forget(h2);
        });
        barrier.wait();
        h1.set_new_spec(sa);
        t.join().ok();
        let rank2 = |target: &str| {
            let mut r = 0;
            for (i, l) in [Level::Error, Level::Warn, Level::Info, Level::Debug, Level::Trace].iter().enumerate() {
                if logger2.enabled(&log::Metadata::builder().level(*l).target(target).build()) {
                    r = i as u64 + 1;
                }
            }
            r
        };
        let (fa, fd) = (rank2("ab"), rank2("b"));
        let gate = log::max_level() as usize as u64;
        std::mem::forget(h1);
        let whole = (fa, fd) == (aa, da) || (fa, fd) == (ab, db);
        if !whole || gate < fa.max(fd) {
            println!("REPRODUCED (race, round {rounds}): final spec=(a={fa},default={fd}) gate={gate}");
            return 1;
        }
    }
    // A schedule that lies between two lock acquisitions cannot be forced through the public API; a
    // race that was not hit in the time box refutes nothing. Exit code 2 = "replay impossible /
    // undecided": the driver then reports the solver's counterexample as it is (a replayer's 0 would
    // demote it to "encoding disagrees with the real code").
    println!("undecided: deterministic window consistent, {rounds} racing rounds did not hit the schedule");
    2
}

/// c05_rejected_push_then_pop: vals = a0,d0,a1,d1 (u64 ranks).
/// push_temp_spec(S1); parse_and_push_temp_spec(malformed) -> Err; pop_temp_spec(); pop_temp_spec().
fn rejected_push_then_pop(vals: &[Vec<u8>]) -> i32 {
    let r: Vec<u64> = vals.iter().take(4).map(|v| u64_of(v)).collect();
    let spec_of = |a: u64, d: u64| {
        let mut b = LogSpecification::builder();
        b.default(filter_of(d)).module("a", filter_of(a));
        b.build()
    };
    let (logger, mut h) = Logger::with(spec_of(r[0], r[1])).do_not_log().build().expect("build");
    let rank = |target: &str| {
        let mut r = 0;
        for (i, l) in [Level::Error, Level::Warn, Level::Info, Level::Debug, Level::Trace].iter().enumerate() {
            if logger.enabled(&log::Metadata::builder().level(*l).target(target).build()) {
                r = i as u64 + 1;
            }
        }
        r
    };
    h.push_temp_spec(spec_of(r[2], r[3]));
    let res = h.parse_and_push_temp_spec("x y");
    let after_reject = (rank("ab"), rank("b"));
    h.pop_temp_spec();
    let after_pop = (rank("ab"), rank("b"));
    println!(
        "S0=({},{}) S1=({},{}) rejected={} active after reject={:?} after pop={:?}",
        r[0], r[1], r[2], r[3], res.is_err(), after_reject, after_pop
    );
    std::mem::forget(h);
    if res.is_err() && (after_reject != (r[2], r[3]) || after_pop != (r[0], r[1])) {
        println!("REPRODUCED: a rejected specification string changed the stack: pop re-activated {:?} instead of S0", after_pop);
        1
    } else {
        0
    }
}

/// c06_highest_compressed: a directory that only holds a *compressed* rotated file with number 3
/// and a current file; a restarted logger (Numbers naming, no append) must rotate the current
/// file to number 4, not re-use a number at or below 3.
fn highest_index_gz(_vals: &[Vec<u8>]) -> i32 {
    use flexi_logger::writers::FileLogWriter;
    use flexi_logger::{Cleanup, Criterion, FileSpec, Naming};
    let dir = std::env::temp_dir().join(format!("verif_replay_gz_{}", std::process::id()));
    let _ = std::fs::remove_dir_all(&dir);
    std::fs::create_dir_all(&dir).unwrap();
    std::fs::write(dir.join("b_r00003.log.gz"), b"earlier run, compressed").unwrap();
    std::fs::write(dir.join("b_rCURRENT.log"), b"earlier run, current\n").unwrap();
    let flw = FileLogWriter::builder(FileSpec::default().directory(&dir).basename("b").suppress_timestamp())
        .rotate(Criterion::Size(1_000_000), Naming::Numbers, Cleanup::Never)
        .try_build()
        .expect("build");
    let mut now = DeferredNow::new();
    flw.write(&mut now, &log::Record::builder().level(Level::Info).target("t").args(format_args!("new run")).build()).unwrap();
    flw.shutdown();
    let mut names: Vec<String> = std::fs::read_dir(&dir).unwrap().flatten().map(|e| e.file_name().to_string_lossy().to_string()).collect();
    names.sort();
    println!("files after restart: {names:?}");
    let reused = names.iter().any(|n| n == "b_r00000.log" || n == "b_r00001.log" || n == "b_r00002.log" || n == "b_r00003.log");
    let _ = std::fs::remove_dir_all(&dir);
    if reused {
        println!("REPRODUCED: the earlier current file was rotated to a number at or below the existing compressed file's number 3");
        1
    } else {
        0
    }
}

/// c14_filter_* / c10_filter_multibyte_boundary: foreign near-miss files in the log directory.
/// which = "separator" | "tail" | "multibyte"
fn foreign_listing(path: &str) -> i32 {
    use flexi_logger::writers::FileLogWriter;
    use flexi_logger::{Cleanup, Criterion, FileSpec, LogfileSelector, Naming};
    let harness = json_str(path, "harness").unwrap_or_default();
    let foreign = if harness.contains("separator") {
        "bXr00001.log"
    } else if harness.contains("tail") {
        "b_r00001.x.log"
    } else {
        "b\u{e9}r01.log"
    };
    let dir = std::env::temp_dir().join(format!("verif_replay_foreign_{}", std::process::id()));
    let _ = std::fs::remove_dir_all(&dir);
    std::fs::create_dir_all(&dir).unwrap();
    std::fs::write(dir.join(foreign), b"not a log file of this logger").unwrap();
    let dir2 = dir.clone();
    let r = std::panic::catch_unwind(move || {
        let flw = FileLogWriter::builder(FileSpec::default().directory(&dir2).basename("b").suppress_timestamp())
            .rotate(Criterion::Size(1_000_000), Naming::Numbers, Cleanup::Never)
            .try_build()
            .expect("build");
        let mut now = DeferredNow::new();
        flw.write(&mut now, &log::Record::builder().level(Level::Info).target("t").args(format_args!("x")).build()).unwrap();
        let files = flw.existing_log_files(&LogfileSelector::default()).unwrap();
        flw.shutdown();
        files
    });
    let _ = std::fs::remove_dir_all(&dir);
    match r {
        Err(_) => {
            println!("REPRODUCED: listing / start panicked with the foreign file {foreign:?} in the directory");
            1
        }
        Ok(files) => {
            println!("foreign file {foreign:?}; listed as own log files: {files:?}");
            if files.iter().any(|p| p.file_name().map(|n| n.to_string_lossy() == foreign).unwrap_or(false)) {
                println!("REPRODUCED: the foreign file is listed as a rotated log file of the family");
                1
            } else {
                0
            }
        }
    }
}

/// c10_ts_infix_short_name: TimestampsDirect + append in a directory that holds a family-prefixed
/// file with a short infix (b_r12.log): the first write must not panic.
fn ts_listing_short_name(_vals: &[Vec<u8>]) -> i32 {
    use flexi_logger::writers::FileLogWriter;
    use flexi_logger::{Cleanup, Criterion, FileSpec, Naming};
    let dir = std::env::temp_dir().join(format!("verif_replay_ts_{}", std::process::id()));
    let _ = std::fs::remove_dir_all(&dir);
    std::fs::create_dir_all(&dir).unwrap();
    std::fs::write(dir.join("b_r12.log"), b"some other file").unwrap();
    let dir2 = dir.clone();
    let r = std::panic::catch_unwind(move || {
        let flw = FileLogWriter::builder(FileSpec::default().directory(&dir2).basename("b").suppress_timestamp())
            .rotate(Criterion::Size(1_000_000), Naming::TimestampsDirect, Cleanup::Never)
            .append()
            .try_build()
            .expect("build");
        let mut now = DeferredNow::new();
        flw.write(&mut now, &log::Record::builder().level(Level::Info).target("t").args(format_args!("x")).build()).unwrap();
        flw.shutdown();
    });
    let _ = std::fs::remove_dir_all(&dir);
    if r.is_err() {
        println!("REPRODUCED: the first write panicked (TimestampsDirect + append, directory contains b_r12.log)");
        1
    } else {
        println!("no panic");
        0
    }
}


/// c16_try_from_bare_name: a FileSpec derived from a bare file name (relative, no directory) must
/// denote that file and a writer built from it must work: build, write one record, find it there.
fn try_from_bare_name() -> i32 {
    use flexi_logger::writers::FileLogWriter;
    use flexi_logger::FileSpec;
    let dir = std::env::temp_dir().join(format!("verif_replay_barename_{}", std::process::id()));
    let _ = std::fs::remove_dir_all(&dir);
    std::fs::create_dir_all(&dir).unwrap();
    std::env::set_current_dir(&dir).unwrap();
    let code = match FileSpec::try_from("name.log") {
        Err(e) => {
            println!("REPRODUCED: try_from(\"name.log\") rejected: {e}");
            1
        }
        Ok(fs) => match FileLogWriter::builder(fs).try_build() {
            Err(e) => {
                println!("REPRODUCED: a writer cannot be built from FileSpec::try_from(\"name.log\"): {e}");
                1
            }
            Ok(flw) => {
                let mut now = DeferredNow::new();
                flw.write(&mut now, &log::Record::builder().level(Level::Info).target("t").args(format_args!("hello")).build()).unwrap();
                flw.shutdown();
                let content = std::fs::read_to_string(dir.join("name.log")).unwrap_or_default();
                if content.contains("hello") {
                    println!("record found in ./name.log");
                    0
                } else {
                    println!("REPRODUCED: the record is not in ./name.log");
                    1
                }
            }
        },
    };
    let _ = std::env::set_current_dir("/");
    let _ = std::fs::remove_dir_all(&dir);
    code
}

/// c10_listing_dir_gone: the log directory is removed externally while the logger runs; listing the
/// log files and the next log call (which rotates: TimestampsDirect, size limit exceeded) must not panic.
fn dir_gone() -> i32 {
    use flexi_logger::writers::FileLogWriter;
    use flexi_logger::{Cleanup, Criterion, FileSpec, LogfileSelector, Naming};
    let dir = std::env::temp_dir().join(format!("verif_replay_dirgone_{}", std::process::id()));
    let _ = std::fs::remove_dir_all(&dir);
    let flw = FileLogWriter::builder(FileSpec::default().directory(&dir).basename("b").suppress_timestamp())
        .rotate(Criterion::Size(10), Naming::TimestampsDirect, Cleanup::Never)
        .try_build()
        .expect("build");
    let rec = |flw: &FileLogWriter| {
        let mut now = DeferredNow::new();
        let _ = flw.write(&mut now, &log::Record::builder().level(Level::Info).target("t").args(format_args!("a line longer than ten bytes")).build());
    };
    rec(&flw);
    std::fs::remove_dir_all(&dir).unwrap();
    let r1 = std::panic::catch_unwind(std::panic::AssertUnwindSafe(|| {
        let _ = flw.existing_log_files(&LogfileSelector::default());
    }));
    // a fresh writer for the log-call path (the first panic poisons the state mutex of `flw`)
    let dir_b = std::env::temp_dir().join(format!("verif_replay_dirgone_b_{}", std::process::id()));
    let _ = std::fs::remove_dir_all(&dir_b);
    let flw2 = FileLogWriter::builder(FileSpec::default().directory(&dir_b).basename("b").suppress_timestamp())
        .rotate(Criterion::Size(10), Naming::TimestampsDirect, Cleanup::Never)
        .try_build()
        .expect("build");
    rec(&flw2);
    std::fs::remove_dir_all(&dir_b).unwrap();
    let r2 = std::panic::catch_unwind(std::panic::AssertUnwindSafe(|| rec(&flw2)));
    let _ = std::fs::remove_dir_all(&dir);
    let _ = std::fs::remove_dir_all(&dir_b);
    if r1.is_err() || r2.is_err() {
        println!("REPRODUCED: log directory removed externally: existing_log_files panicked: {}, rotating log call panicked: {}", r1.is_err(), r2.is_err());
        1
    } else {
        println!("no panic");
        0
    }
}

fn main() {
    let args: Vec<String> = std::env::args().collect();
    if args.len() < 3 {
        eprintln!("usage: verif_replay <replayer> <cex.json>");
        std::process::exit(3);
    }
    let vals = concrete_vals(&args[2]);
    let code = match args[1].as_str() {
        "enabled_brace_ceiling" => enabled_brace_ceiling(&vals),
        "target_no_panic" => target_no_panic(&args[2], &vals),
        "two_setters" => two_setters(&vals),
        "rejected_push_then_pop" => rejected_push_then_pop(&vals),
        "highest_index_gz" => highest_index_gz(&vals),
        "foreign_listing" => foreign_listing(&args[2]),
        "ts_listing_short_name" => ts_listing_short_name(&vals),
        "try_from_bare_name" => try_from_bare_name(),
        "dir_gone" => dir_gone(),
        other => {
            eprintln!("unknown replayer {other}");
            3
        }
    };
    std::process::exit(code);
}
